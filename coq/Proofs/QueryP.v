(** C05: whole-query round trips through [parse_tokens] (= logql.Parse on the token list):
    log queries  {selector} stage ... stage   and range aggregations  op({selector} stage ... [range] offset d)
    over the stage fragment of PipelineP. *)
From LogQLV Require Import Base.Bytes Base.FloatX Model.Tables Model.Syntax Model.Parser Proofs.ParserP Proofs.PipelineP Proofs.LogRangeP.
From Coq Require Import Lia.

Section Query.
  Variable anch : bytes -> bool.
  Variable re_names : bytes -> option (list bytes).

  Lemma print_matchers_len cls ms : (length ms <= length (print_matchers anch re_names cls ms))%nat.
  Proof.
    induction ms as [|m t IH]; [cbn; lia|]. destruct t as [|m2 t']; [cbn; lia|].
    change (print_matchers anch re_names cls (m :: m2 :: t')) with (print_matcher anch re_names cls m ++ punct TComma :: print_matchers anch re_names cls (m2 :: t')).
    rewrite app_length. cbn [length print_matcher] in *. lia.
  Qed.
  Lemma print_selector_len cls ms : (length ms < length (print_selector anch re_names cls ms))%nat.
  Proof. unfold print_selector. cbn [length]. rewrite app_length. pose proof (print_matchers_len cls ms). cbn [length]. lia. Qed.

  Lemma print_names_len ls : (length ls <= length (print_names ls))%nat.
  Proof. induction ls as [|l t IH]; [cbn; lia|]. destruct t; cbn [print_names length] in *; lia. Qed.
  Lemma print_tmpls_len ts : (length ts <= length (print_tmpls anch re_names ts))%nat.
  Proof. induction ts as [|[d tm] t IH]; [cbn; lia|]. destruct t; cbn [print_tmpls length] in *; lia. Qed.
  Lemma print_lf_len rs : forall ts, (length rs + length ts <= length (print_lf anch re_names rs ts))%nat.
  Proof.
    induction rs as [|[s d] t IH]; intro ts; [cbn [print_lf length]; apply print_tmpls_len|].
    cbn [print_lf]. destruct t as [|p2 t']; [destruct ts as [|q ts']|]; cbn [length].
    - lia.
    - specialize (IH (q :: ts')). cbn [length] in *. lia.
    - specialize (IH ts). cbn [length] in *. lia.
  Qed.

  Lemma stage_fuel s : simple_stage anch re_names s -> (S (stage_size s) <= 2 * length (print_stage anch re_names s))%nat.
  Proof.
    destruct s as [o v ip|jl je|ll le| | |pt| |lt| |q|rs ts|ls ms|ls ms|ls]; cbn [simple_stage]; intro H; try contradiction; cbn [stage_size print_stage length].
    - destruct ip; cbn; lia.
    - pose proof (print_names_len jl). lia.
    - pose proof (print_names_len ll). lia.
    - lia.
    - lia.
    - lia.
    - lia.
    - pose proof (PredP.psize_le_print anch re_names (fun _ => []) (fun _ => []) (fun _ => []) q). lia.
    - pose proof (print_lf_len rs ts). lia.
    - pose proof (print_names_len ls). lia.
    - pose proof (print_names_len ls). lia.
    - pose proof (print_names_len ls). lia.
  Qed.

  Lemma stages_fuel sts r : chain_ok anch re_names sts r -> (fuel_needed sts <= 2 * length (print_stages anch re_names sts))%nat.
  Proof.
    revert r. induction sts as [|s t IH]; intros r H; [cbn; lia|].
    cbn [chain_ok] in H. destruct H as [Hs [_ Hc]]. cbn [fuel_needed]. change (print_stages anch re_names (s :: t)) with (print_stage anch re_names s ++ print_stages anch re_names t).
    rewrite app_length. pose proof (stage_fuel s Hs). specialize (IH r Hc). lia.
  Qed.

  (** every log query over the fragment is accepted and parsed into exactly its selector and stages *)
  Theorem log_query_parse_lemma cls sel sts :
    Forall (wf_lmatcher anch cls) sel -> Forall (fun m => ttype_eqb (cls (m_label m)) TCloseBrace = false) sel ->
    chain_ok anch re_names sts [] ->
    parse_tokens (print_selector anch re_names cls sel ++ print_stages anch re_names sts) = Parsed (ELog sel sts).
  Proof.
    intros Hsel Hnc Hchain. unfold parse_tokens.
    set (toks := print_selector anch re_names cls sel ++ print_stages anch re_names sts).
    assert (Hlen : (length sel + fuel_needed sts + 2 <= 2 * length toks)%nat).
    { unfold toks. rewrite app_length. pose proof (print_selector_len cls sel). pose proof (stages_fuel sts [] Hchain). lia. }
    remember (16 * length toks + 64)%nat as fuel eqn:Ef. destruct fuel as [|f]; [lia|].
    cbn [parse_core]. unfold bind at 1, peek at 1. cbn [rest]. unfold toks at 1. unfold print_selector at 1. cbn [app].
    change (is_ty (punct TOpenBrace) TOpenBrace) with true. cbn iota.
    unfold bind at 1.
    change (punct TOpenBrace :: (print_matchers anch re_names cls sel ++ [punct TCloseBrace]) ++ print_stages anch re_names sts) with toks.
    unfold toks. rewrite (parse_selector_print anch re_names cls sel [] _ f Hsel); [|lia|exact Hnc].
    unfold bind at 1. rewrite <- (app_nil_r (print_stages anch re_names sts)).
    rewrite (pipeline_print_lemma anch re_names sts f false [] _ [] Hchain); [|lia].
    reflexivity.
  Qed.

  (** * range aggregations without unwrap: count_over_time, rate, bytes_over_time, bytes_rate, absent_over_time *)
  Definition rangeop_tok (o : rangeop) : ttype :=
    match o with
    | RangeOpCount => TCountOverTime | RangeOpRate => TRate | RangeOpRateCounter => TRateCounter | RangeOpBytes => TBytesOverTime
    | RangeOpBytesRate => TBytesRate | RangeOpAvg => TAvgOverTime | RangeOpSum => TSumOverTime | RangeOpMin => TMinOverTime
    | RangeOpMax => TMaxOverTime | RangeOpStdvar => TStdvarOverTime | RangeOpStddev => TStddevOverTime
    | RangeOpQuantile => TQuantileOverTime | RangeOpFirst => TFirstOverTime | RangeOpLast => TLastOverTime | RangeOpAbsent => TAbsentOverTime
    end.

  Lemma range_op_of_tok o : range_op_of (punct (rangeop_tok o)) = Some o.
  Proof. destruct o; reflexivity. Qed.
  Lemma rangeop_tok_not o : is_ty (punct (rangeop_tok o)) TOpenBrace = false /\ is_ty (punct (rangeop_tok o)) TOpenParen = false.
  Proof. destruct o; split; reflexivity. Qed.

  Definition print_range_agg cls (o : rangeop) sel sts rtxt rns off : list token :=
    punct (rangeop_tok o) :: punct TOpenParen :: print_logrange anch re_names cls sel sts rtxt rns off ++ [punct TCloseParen].

  Lemma print_range_len rtxt rns off : (3 <= length (print_range rtxt rns off))%nat.
  Proof. unfold print_range. destruct off as [[? ?]|]; cbn; lia. Qed.

  Lemma core_expr_metric f p r : is_ty (match r with [] => eof_tok | t :: _ => t end) TOpenBrace = false ->
    parse_core (S f) CExpr {| prev := p; rest := r |} = parse_core f CMetric {| prev := p; rest := r |}.
  Proof. intro H. cbn [parse_core]. unfold bind at 1, peek at 1. cbn [rest]. rewrite H. reflexivity. Qed.

  Definition no_grouping_ahead (r : list token) : Prop := match r with t :: _ => is_ty t TBy = false /\ is_ty t TWithout = false | [] => True end.
  Definition no_binop_ahead (r : list token) : Prop := match r with t :: _ => peek_binop_of t = None | [] => True end.

  Definition range_expr o sel sts rns (off : option (bytes * Z)) : expr :=
    ERange o {| r_sel := sel; r_range := rns; r_pipe := sts; r_unwrap := None; r_offset := option_map snd off |} None None.

  (** parseMetricExpr1 on a range aggregation *)
  Lemma range_agg_core cls o sel sts rtxt rns off f p r :
    range_validate o None None false = true ->
    Forall (wf_lmatcher anch cls) sel -> Forall (fun m => ttype_eqb (cls (m_label m)) TCloseBrace = false) sel ->
    chain_ok anch re_names sts (print_range rtxt rns off ++ punct TCloseParen :: r) ->
    (length sel < f)%nat -> (fuel_needed sts < f)%nat -> no_grouping_ahead r ->
    parse_core (S f) CMetric1 {| prev := p; rest := print_range_agg cls o sel sts rtxt rns off ++ r |} =
      POk (range_expr o sel sts rns off) {| prev := rev (print_range_agg (fun _ => TIdent) o sel sts rtxt rns off) ++ p; rest := r |}.
  Proof.
    intros Hval Hsel Hnc Hchain Hf1 Hf2 Hng.
    destruct (rangeop_tok_not o) as [Hb Hp]. unfold print_range_agg.
    cbn [parse_core app]. unfold bind at 1, peek at 1. cbn [rest]. rewrite Hp. cbn iota. rewrite range_op_of_tok.
    unfold bind at 1, next at 1. cbn [rest prev].
    unfold bind at 1, consume at 1, bind at 1, next at 1. cbn [rest prev].
    change (is_ty (punct TOpenParen) TOpenParen) with true. cbn iota. cbn [ret].
    unfold bind at 1, peek at 1. cbn [rest]. unfold print_logrange at 1, print_selector at 1. cbn [app].
    change (is_ty (punct TOpenBrace) TNumber) with false. cbn iota.
    unfold bind at 1. cbn [ret].
    change (punct TOpenBrace :: (((print_matchers anch re_names cls sel ++ [punct TCloseBrace]) ++ print_stages anch re_names sts ++ print_range rtxt rns off) ++ [punct TCloseParen]) ++ r)
      with ((print_logrange anch re_names cls sel sts rtxt rns off ++ [punct TCloseParen]) ++ r).
    rewrite <- app_assoc. cbn [app].
    unfold bind at 1.
    rewrite (logrange_print_lemma anch re_names cls sel sts rtxt rns off _ (punct TCloseParen :: r) f Hsel Hnc Hchain Hf1 Hf2);
      [|intros _; reflexivity|intros _; repeat split; reflexivity].
    unfold bind at 1, consume at 1, bind at 1, next at 1. cbn [rest prev].
    change (is_ty (punct TCloseParen) TCloseParen) with true. cbn iota. cbn [ret].
    unfold bind at 1, peek at 1. cbn [rest].
    assert (Hg : (is_ty (match r with [] => eof_tok | t :: _ => t end) TBy || is_ty (match r with [] => eof_tok | t :: _ => t end) TWithout) = false).
    { destruct r as [|t0 r']; [reflexivity|]. cbn in Hng. destruct Hng as [-> ->]. reflexivity. }
    rewrite Hg. cbn iota. unfold bind at 1. cbn [ret r_unwrap]. rewrite Hval. unfold ret, range_expr. f_equal.
    f_equal. cbn [rev]. rewrite !rev_app_distr. cbn [rev app]. rewrite <- !app_assoc. reflexivity.
  Qed.

  (** parseMetricExpr: the range aggregation followed by something that is no binary operator *)
  Lemma range_agg_metric cls o sel sts rtxt rns off f p r :
    range_validate o None None false = true ->
    Forall (wf_lmatcher anch cls) sel -> Forall (fun m => ttype_eqb (cls (m_label m)) TCloseBrace = false) sel ->
    chain_ok anch re_names sts (print_range rtxt rns off ++ punct TCloseParen :: r) ->
    (length sel < f)%nat -> (fuel_needed sts < f)%nat -> no_grouping_ahead r -> no_binop_ahead r ->
    parse_core (S (S f)) CMetric {| prev := p; rest := print_range_agg cls o sel sts rtxt rns off ++ r |} =
      POk (range_expr o sel sts rns off) {| prev := rev (print_range_agg (fun _ => TIdent) o sel sts rtxt rns off) ++ p; rest := r |}.
  Proof.
    intros Hval Hsel Hnc Hchain Hf1 Hf2 Hng Hnb.
    change (parse_core (S (S f)) CMetric) with (do e <- parse_core (S f) CMetric1; parse_core (S f) (CBinOp e 0)).
    unfold bind at 1. rewrite (range_agg_core cls o sel sts rtxt rns off f p r Hval Hsel Hnc Hchain Hf1 Hf2 Hng).
    cbn [parse_core]. unfold bind at 1, peek at 1. cbn [rest].
    assert (Hb : peek_binop_of (match r with [] => eof_tok | t :: _ => t end) = None) by (destruct r; [reflexivity|exact Hnb]).
    rewrite Hb. reflexivity.
  Qed.

  Theorem range_agg_parse_lemma cls o sel sts rtxt rns off :
    range_validate o None None false = true ->
    Forall (wf_lmatcher anch cls) sel -> Forall (fun m => ttype_eqb (cls (m_label m)) TCloseBrace = false) sel ->
    chain_ok anch re_names sts (print_range rtxt rns off ++ [punct TCloseParen]) ->
    parse_tokens (print_range_agg cls o sel sts rtxt rns off) =
      Parsed (ERange o {| r_sel := sel; r_range := rns; r_pipe := sts; r_unwrap := None; r_offset := option_map snd off |} None None).
  Proof.
    intros Hval Hsel Hnc Hchain. unfold parse_tokens.
    set (toks := print_range_agg cls o sel sts rtxt rns off).
    assert (Hlen : (length sel + fuel_needed sts + 2 <= 2 * length toks)%nat).
    { unfold toks, print_range_agg, print_logrange. cbn [length]. rewrite !app_length.
      pose proof (print_selector_len cls sel). pose proof (stages_fuel sts _ Hchain). lia. }
    remember (16 * length toks + 64)%nat as fuel eqn:Ef.
    destruct fuel as [|f0]; [lia|]. destruct f0 as [|f1]; [lia|]. destruct f1 as [|f2]; [lia|].
    assert (Hf2 : (length sel < f2 /\ fuel_needed sts < f2)%nat) by lia.
    destruct (rangeop_tok_not o) as [Hb Hp].
    clear Ef. subst toks.
    assert (Hhead : match print_range_agg cls o sel sts rtxt rns off with [] => eof_tok | t :: _ => t end = punct (rangeop_tok o)) by reflexivity.
    rewrite core_expr_metric by (rewrite Hhead; exact Hb).
    pose proof (range_agg_metric cls o sel sts rtxt rns off f2 [] [] Hval Hsel Hnc Hchain (proj1 Hf2) (proj2 Hf2) I I) as H.
    rewrite app_nil_r in H. rewrite H. reflexivity.
  Qed.

  (** * vector aggregations with a grouping clause over a range aggregation:  sum by (a, b) (count_over_time(...)) *)
  Definition vecop_tok (v : vectorop) : ttype :=
    match v with
    | VectorOpSum => TSum | VectorOpAvg => TAvg | VectorOpCount => TCount | VectorOpMax => TMax | VectorOpMin => TMin
    | VectorOpStddev => TStddev | VectorOpStdvar => TStdvar | VectorOpBottomk => TBottomk | VectorOpTopk => TTopk
    | VectorOpSort => TSort | VectorOpSortDesc => TSortDesc
    end.
  Lemma vecop_tok_facts v :
    vector_op_of (punct (vecop_tok v)) = Some v /\ range_op_of (punct (vecop_tok v)) = None /\
    is_ty (punct (vecop_tok v)) TOpenParen = false /\ is_ty (punct (vecop_tok v)) TOpenBrace = false.
  Proof. destruct v; repeat split; reflexivity. Qed.

  Definition print_labels (ls : list bytes) : list token := punct TOpenParen :: print_names ls ++ [punct TCloseParen].
  Definition print_grouping (g : grouping) : list token := punct (if g_without g then TWithout else TBy) :: print_labels (g_labels g).

  Lemma labels_loop_print ls : forall fuel acc p r, ls <> [] -> (length ls <= fuel)%nat ->
    labels_loop fuel acc {| prev := p; rest := print_names ls ++ punct TCloseParen :: r |} =
      POk (acc ++ ls) {| prev := punct TCloseParen :: rev (print_names ls) ++ p; rest := r |}.
  Proof.
    induction ls as [|l t IH]; intros fuel acc p r Hne Hf; [congruence|].
    destruct fuel as [|f]; [cbn in Hf; lia|].
    destruct t as [|l2 t'].
    - cbn. reflexivity.
    - change (print_names (l :: l2 :: t')) with (plain TIdent l :: punct TComma :: print_names (l2 :: t')).
      remember (print_names (l2 :: t')) as pn eqn:Epn.
      cbn [app labels_loop]. cbn. subst pn. rewrite IH; [|discriminate|cbn in *; lia].
      rewrite <- !app_assoc. cbn [app].
      change (print_names (l :: l2 :: t')) with (plain TIdent l :: punct TComma :: print_names (l2 :: t')).
      cbn [rev]. rewrite <- ?app_assoc. reflexivity.
  Qed.

  Lemma labels_print ls fuel p r : (length ls <= fuel)%nat ->
    parse_labels fuel {| prev := p; rest := print_labels ls ++ r |} = POk ls {| prev := rev (print_labels ls) ++ p; rest := r |}.
  Proof.
    intro Hf. unfold parse_labels, print_labels. cbn [app]. unfold bind at 1, consume at 1, bind at 1, next at 1. cbn [rest prev].
    change (is_ty (punct TOpenParen) TOpenParen) with true. cbn iota. cbn [ret].
    destruct ls as [|l t].
    - cbn. reflexivity.
    - assert (Hh : exists tl, (print_names (l :: t) ++ [punct TCloseParen]) ++ r = plain TIdent l :: tl) by (destruct t; cbn; eauto).
      destruct Hh as [tl Htl]. unfold bind at 1, peek at 1. cbn [rest]. rewrite Htl.
      change (is_ty (plain TIdent l) TCloseParen) with false. cbn iota. rewrite <- Htl. rewrite <- app_assoc. cbn [app].
      rewrite (labels_loop_print (l :: t) fuel [] _ r); [|discriminate|exact Hf].
      cbn [app]. f_equal. f_equal. cbn [rev]. rewrite rev_app_distr. cbn [rev app]. rewrite <- !app_assoc. reflexivity.
  Qed.

  Lemma grouping_print g fuel p r : (length (g_labels g) <= fuel)%nat ->
    parse_grouping fuel {| prev := p; rest := print_grouping g ++ r |} = POk g {| prev := rev (print_grouping g) ++ p; rest := r |}.
  Proof.
    intro Hf. destruct g as [ls w]. unfold parse_grouping, print_grouping. cbn [g_labels g_without app].
    unfold bind at 1, next at 1. cbn [rest prev].
    destruct w.
    - change (is_ty (punct TWithout) TBy) with false. change (is_ty (punct TWithout) TWithout) with true. cbn iota.
      unfold bind at 1. cbn [ret]. unfold bind at 1. rewrite (labels_print ls fuel _ r Hf). unfold ret. f_equal.
      f_equal. cbn [rev]. rewrite <- ?app_assoc. reflexivity.
    - change (is_ty (punct TBy) TBy) with true. cbn iota.
      unfold bind at 1. cbn [ret]. unfold bind at 1. rewrite (labels_print ls fuel _ r Hf). unfold ret. f_equal.
      f_equal. cbn [rev]. rewrite <- ?app_assoc. reflexivity.
  Qed.

  Definition print_vec_agg cls (v : vectorop) (g : grouping) o sel sts rtxt rns off : list token :=
    punct (vecop_tok v) :: print_grouping g ++ punct TOpenParen :: print_range_agg cls o sel sts rtxt rns off ++ [punct TCloseParen].

  Lemma bind_POk {A B} (m : M A) (k : A -> M B) s a s' : m s = POk a s' -> (do x <- m; k x) s = k a s'.
  Proof. unfold bind. intros ->. reflexivity. Qed.

  Ltac stepb := erewrite bind_POk by reflexivity; cbv beta; cbn [rest prev].

  Lemma core_metric f s : parse_core (S f) CMetric s = (do e <- parse_core f CMetric1; parse_core f (CBinOp e 0)) s.
  Proof. reflexivity. Qed.
  Lemma core_binop_end f e p r : no_binop_ahead r -> parse_core (S f) (CBinOp e 0) {| prev := p; rest := r |} = POk e {| prev := p; rest := r |}.
  Proof.
    intro H. cbn [parse_core]. unfold bind at 1, peek at 1. cbn [rest].
    assert (Hb : peek_binop_of (match r with [] => eof_tok | t :: _ => t end) = None) by (destruct r; [reflexivity|exact H]).
    rewrite Hb. reflexivity.
  Qed.

  (** parseVectorAggregationExpr with the grouping clause before the operand: whatever the operand parser returns is wrapped *)
  Lemma vec_agg_core f v g inner e p pin r :
    vector_validate v None (Some g) = true -> (length (g_labels g) <= f)%nat ->
    is_ty (match inner ++ punct TCloseParen :: r with [] => eof_tok | t :: _ => t end) TNumber = false ->
    parse_core f CMetric {| prev := punct TOpenParen :: rev (print_grouping g) ++ punct (vecop_tok v) :: p; rest := inner ++ punct TCloseParen :: r |} =
      POk e {| prev := pin; rest := punct TCloseParen :: r |} ->
    parse_core (S f) CMetric1 {| prev := p; rest := punct (vecop_tok v) :: print_grouping g ++ punct TOpenParen :: inner ++ punct TCloseParen :: r |} =
      POk (EVecAgg v e None (Some g)) {| prev := punct TCloseParen :: pin; rest := r |}.
  Proof.
    intros Hvv Hf Hnum Hin. destruct (vecop_tok_facts v) as [Hv [Hr [Hp Hb]]].
    cbn [parse_core].
    stepb. rewrite Hp. cbn iota. rewrite Hr, Hv.
    stepb. stepb.
    assert (Hby : (is_ty (punct (if g_without g then TWithout else TBy)) TBy || is_ty (punct (if g_without g then TWithout else TBy)) TWithout) = true) by (destruct (g_without g); reflexivity).
    change (match print_grouping g ++ punct TOpenParen :: inner ++ punct TCloseParen :: r with [] => eof_tok | t :: _ => t end) with (punct (if g_without g then TWithout else TBy)).
    rewrite Hby. cbn iota.
    erewrite bind_POk; [|erewrite bind_POk by (apply grouping_print; exact Hf); cbv beta;
                         erewrite bind_POk; [|stepb; stepb; stepb;
                                               rewrite Hnum; cbn [andb]; cbn iota;
                                               stepb;
                                               erewrite bind_POk by (exact Hin); cbv beta;
                                               stepb; reflexivity];
                         cbv beta; reflexivity].
    cbv beta. cbn iota. rewrite Hvv. reflexivity.
  Qed.

  Theorem vec_agg_parse_lemma cls v g o sel sts rtxt rns off :
    vector_validate v None (Some g) = true -> range_validate o None None false = true ->
    Forall (wf_lmatcher anch cls) sel -> Forall (fun m => ttype_eqb (cls (m_label m)) TCloseBrace = false) sel ->
    chain_ok anch re_names sts (print_range rtxt rns off ++ [punct TCloseParen; punct TCloseParen]) ->
    parse_tokens (print_vec_agg cls v g o sel sts rtxt rns off) = Parsed (EVecAgg v (range_expr o sel sts rns off) None (Some g)).
  Proof.
    intros Hvv Hval Hsel Hnc Hchain. unfold parse_tokens.
    set (toks := print_vec_agg cls v g o sel sts rtxt rns off).
    assert (Hlen : (length sel + fuel_needed sts + length (g_labels g) + 2 <= 2 * length toks)%nat).
    { unfold toks, print_vec_agg, print_grouping, print_labels, print_range_agg, print_logrange.
      repeat (rewrite app_length || cbn [length]).
      pose proof (print_selector_len cls sel). pose proof (stages_fuel sts _ Hchain). pose proof (print_names_len (g_labels g)). lia. }
    remember (16 * length toks + 64)%nat as fuel eqn:Ef.
    do 5 (destruct fuel as [|fuel]; [lia|]).
    assert (Hf : (length sel < fuel /\ fuel_needed sts < fuel /\ length (g_labels g) <= S (S fuel))%nat) by lia.
    destruct (vecop_tok_facts v) as [Hv [Hr [Hp Hb]]].
    clear Ef Hlen. subst toks.
    assert (Hhead : match print_vec_agg cls v g o sel sts rtxt rns off with [] => eof_tok | t :: _ => t end = punct (vecop_tok v)) by reflexivity.
    rewrite core_expr_metric by (rewrite Hhead; exact Hb).
    rewrite core_metric. unfold bind at 1.
    unfold print_vec_agg.
    erewrite (vec_agg_core (S (S fuel)) v g (print_range_agg cls o sel sts rtxt rns off) (range_expr o sel sts rns off) [] _ []).
    - rewrite core_binop_end by exact I. reflexivity.
    - exact Hvv.
    - exact (proj2 (proj2 Hf)).
    - destruct o; reflexivity.
    - apply (range_agg_metric cls o sel sts rtxt rns off fuel _ [punct TCloseParen] Hval Hsel Hnc Hchain (proj1 Hf) (proj1 (proj2 Hf))); [split; reflexivity|reflexivity].
  Qed.
End Query.
