(** C08: groupEntries partitions the emitted entries into streams by label set, each sorted by timestamp. *)
From LogQLV Require Import Base.Bytes Base.LMap Model.Tables Model.Stages Model.Engine.
From Coq Require Import Permutation Sorted.

Lemma lmap_eqb_eq a : forall b, lmap_eqb a b = true <-> a = b.
Proof.
  induction a as [|[k1 v1] a IH]; intros [|[k2 v2] b]; cbn; split; intro H; try congruence; try discriminate.
  - apply andb_true_iff in H as [H H3]. apply andb_true_iff in H as [H1 H2].
    apply bytes_eqb_eq in H1, H2. apply IH in H3. congruence.
  - inversion H; subst. rewrite !bytes_eqb_refl. cbn. apply IH. reflexivity.
Qed.

Lemma lmap_eqb_refl a : lmap_eqb a a = true.
Proof. apply lmap_eqb_eq; reflexivity. Qed.

Definition val_of (e : entry) : Z * bytes := (e_ts e, e_line e).

(** values of the (first) stream carrying label set L *)
Fixpoint vals_of (ss : list stream) (L : lmap) : list (Z * bytes) :=
  match ss with
  | [] => []
  | (l, vs) :: t => if lmap_eqb l L then vs else vals_of t L
  end.

Lemma add_to_stream_vals ss e L :
  vals_of (add_to_stream ss e) L = if lmap_eqb (e_set e) L then vals_of ss L ++ [val_of e] else vals_of ss L.
Proof.
  induction ss as [|[l vs] t IH]; cbn.
  - destruct (lmap_eqb (e_set e) L); reflexivity.
  - destruct (lmap_eqb l (e_set e)) eqn:E1; cbn.
    + apply lmap_eqb_eq in E1. subst l. destruct (lmap_eqb (e_set e) L); reflexivity.
    + destruct (lmap_eqb l L) eqn:E2; [|exact IH].
      apply lmap_eqb_eq in E2. subst l.
      destruct (lmap_eqb (e_set e) L) eqn:E3; [|reflexivity].
      apply lmap_eqb_eq in E3. subst L. rewrite lmap_eqb_refl in E1. discriminate.
Qed.

Lemma add_to_stream_keys ss e :
  map fst (add_to_stream ss e) = if existsb (fun l => lmap_eqb l (e_set e)) (map fst ss) then map fst ss else map fst ss ++ [e_set e].
Proof.
  induction ss as [|[l vs] t IH]; cbn; [reflexivity|].
  destruct (lmap_eqb l (e_set e)) eqn:E1; cbn; [reflexivity|].
  rewrite IH. destruct (existsb (fun l0 => lmap_eqb l0 (e_set e)) (map fst t)); reflexivity.
Qed.

Lemma existsb_lmap_in l ks : existsb (fun k => lmap_eqb k l) ks = true <-> In l ks.
Proof.
  rewrite existsb_exists. split.
  - intros [k [Hin Hk]]. apply lmap_eqb_eq in Hk. subst; exact Hin.
  - intro H. exists l. split; [exact H|apply lmap_eqb_refl].
Qed.

Lemma NoDup_snoc {A} (l : list A) x : NoDup l -> ~ In x l -> NoDup (l ++ [x]).
Proof.
  induction l as [|y t IH]; cbn; intros Hn Hx; [constructor; [intros []|constructor]|].
  inversion Hn; subst. constructor.
  - rewrite in_app_iff. intros [H|[H|[]]]; [contradiction|]. apply Hx. left; congruence.
  - apply IH; [assumption|]. intro; apply Hx; right; assumption.
Qed.

Lemma add_to_stream_nodup ss e : NoDup (map fst ss) -> NoDup (map fst (add_to_stream ss e)).
Proof.
  intro H. rewrite add_to_stream_keys.
  destruct (existsb (fun l => lmap_eqb l (e_set e)) (map fst ss)) eqn:E; [exact H|].
  apply NoDup_snoc; [exact H|]. intro Hin. apply existsb_lmap_in in Hin. congruence.
Qed.

Definition total (ss : list stream) : nat := length (flat_map snd ss).

Lemma add_to_stream_total ss e : total (add_to_stream ss e) = S (total ss).
Proof.
  unfold total. induction ss as [|[l vs] t IH]; cbn; [reflexivity|].
  destruct (lmap_eqb l (e_set e)); cbn; rewrite !app_length; cbn; [lia|]. rewrite IH. lia.
Qed.

Lemma add_to_stream_nonempty ss e : Forall (fun s => snd s <> []) ss -> Forall (fun s => snd s <> []) (add_to_stream ss e).
Proof.
  induction ss as [|[l vs] t IH]; cbn; intro H.
  - constructor; [cbn; discriminate|constructor].
  - inversion H; subst. destruct (lmap_eqb l (e_set e)); constructor; auto. cbn. destruct vs; discriminate.
Qed.

Definition grouped (es : list entry) : list stream := fold_left add_to_stream es [].

Lemma fold_invariants es : forall ss,
  NoDup (map fst ss) -> Forall (fun s => snd s <> []) ss ->
  NoDup (map fst (fold_left add_to_stream es ss)) /\ Forall (fun s => snd s <> []) (fold_left add_to_stream es ss) /\
  total (fold_left add_to_stream es ss) = (total ss + length es)%nat /\
  forall L, vals_of (fold_left add_to_stream es ss) L = vals_of ss L ++ map val_of (filter (fun e => lmap_eqb (e_set e) L) es).
Proof.
  induction es as [|e t IH]; intros ss Hn Hne; cbn [fold_left length filter map].
  - repeat split; auto. intro L; rewrite app_nil_r; reflexivity.
  - destruct (IH (add_to_stream ss e) (add_to_stream_nodup ss e Hn) (add_to_stream_nonempty ss e Hne)) as [A [B [C D]]].
    repeat split; auto.
    + rewrite C, add_to_stream_total. lia.
    + intro L. rewrite D, add_to_stream_vals. destruct (lmap_eqb (e_set e) L); cbn; [rewrite <- app_assoc|]; reflexivity.
Qed.

Lemma vals_of_in ss L vs : NoDup (map fst ss) -> In (L, vs) ss -> vals_of ss L = vs.
Proof.
  induction ss as [|[l v] t IH]; cbn; intros Hn H; [contradiction|]. destruct H as [H|H]; [inversion H; subst; rewrite lmap_eqb_refl; reflexivity|].
  inversion Hn; subst. destruct (lmap_eqb l L) eqn:E; [|apply IH; assumption].
  apply lmap_eqb_eq in E. subst l. exfalso. apply H2. apply (in_map fst) in H. exact H.
Qed.

(** * Sorting of a stream's values *)
Definition le_ts (a b : Z * bytes) : Prop := fst a <= fst b.

Lemma insert_val_perm v l : Permutation (insert_val v l) (v :: l).
Proof.
  induction l as [|x t IH]; cbn; [reflexivity|]. destruct (fst v <? fst x); [reflexivity|].
  eapply Permutation_trans; [apply perm_skip; exact IH|apply perm_swap].
Qed.

Lemma insert_val_sorted v l : Sorted le_ts l -> Sorted le_ts (insert_val v l).
Proof.
  induction l as [|x t IH]; cbn; intro H; [repeat constructor|].
  destruct (Z.ltb_spec (fst v) (fst x)).
  - constructor; [exact H|constructor; unfold le_ts; lia].
  - inversion H; subst. constructor; [apply IH; assumption|].
    destruct t as [|y t']; cbn; [constructor; unfold le_ts; lia|].
    destruct (Z.ltb_spec (fst v) (fst y)); constructor; unfold le_ts; try lia.
    match goal with Hd : HdRel le_ts x (y :: t') |- _ => inversion Hd; subst; assumption end.
Qed.

Lemma sort_vals_perm l : Permutation (sort_vals l) l.
Proof.
  unfold sort_vals. rewrite <- (rev_involutive l) at 2. generalize (rev l) as m. clear l.
  induction m as [|x t IH]; cbn; [reflexivity|].
  eapply Permutation_trans; [apply insert_val_perm|].
  eapply Permutation_trans; [apply perm_skip; exact IH|]. apply Permutation_cons_append.
Qed.

Lemma sort_vals_sorted l : Sorted le_ts (sort_vals l).
Proof. unfold sort_vals. induction (rev l) as [|x t IH]; cbn; [constructor|apply insert_val_sorted; exact IH]. Qed.

(** * The theorems *)
Lemma group_keys es : map fst (group_entries es) = map fst (grouped es).
Proof. unfold group_entries, grouped. rewrite map_map. reflexivity. Qed.

Theorem streams_nodup_lemma es : NoDup (map fst (group_entries es)).
Proof. rewrite group_keys. apply (fold_invariants es [] (NoDup_nil _) (Forall_nil _)). Qed.

Theorem stream_content_lemma es L vs :
  In (L, vs) (group_entries es) ->
  Permutation vs (map val_of (filter (fun e => lmap_eqb (e_set e) L) es)) /\ Sorted le_ts vs /\ vs <> [].
Proof.
  unfold group_entries. intro H. apply in_map_iff in H as [[l v] [Heq Hin]]. cbn in Heq. inversion Heq; subst.
  destruct (fold_invariants es [] (NoDup_nil _) (Forall_nil _)) as [A [B [_ D]]]. cbn in D.
  rewrite <- (D L), (vals_of_in _ _ _ A Hin).
  split; [apply sort_vals_perm|]. split; [apply sort_vals_sorted|].
  rewrite Forall_forall in B. specialize (B _ Hin). cbn in B.
  intro Hs. apply B. pose proof (sort_vals_perm v) as P. unfold sort_vals in *. rewrite Hs in P. apply Permutation_nil in P. exact P.
Qed.

Theorem entry_placed_lemma es e :
  In e es -> exists vs, In (e_set e, vs) (group_entries es) /\ In (val_of e) vs.
Proof.
  intro Hin. destruct (fold_invariants es [] (NoDup_nil _) (Forall_nil _)) as [A [B [_ D]]]. cbn in D.
  assert (Hv : In (val_of e) (vals_of (fold_left add_to_stream es []) (e_set e))).
  { rewrite D. apply in_map. apply filter_In. split; [exact Hin|apply lmap_eqb_refl]. }
  assert (Hex : exists v, In (e_set e, v) (fold_left add_to_stream es []) /\ vals_of (fold_left add_to_stream es []) (e_set e) = v).
  { revert Hv. generalize (fold_left add_to_stream es []) as ss. induction ss as [|[l v] t IH]; cbn; [intros []|].
    destruct (lmap_eqb l (e_set e)) eqn:E.
    - apply lmap_eqb_eq in E. subst l. intros _. exists v. split; [left; reflexivity|reflexivity].
    - intro Hv. destruct (IH Hv) as [v' [H1 H2]]. exists v'. split; [right; exact H1|exact H2]. }
  destruct Hex as [v [H1 H2]]. exists (sort_vals v). split.
  - unfold group_entries. apply in_map_iff. exists (e_set e, v). split; [reflexivity|exact H1].
  - rewrite H2 in Hv. eapply Permutation_in; [apply Permutation_sym; apply sort_vals_perm|exact Hv].
Qed.

Lemma sorted_total ss : length (flat_map snd (map (fun s : stream => (fst s, sort_vals (snd s))) ss)) = length (flat_map snd ss).
Proof.
  induction ss as [|[l v] t IH]; cbn [flat_map map fst snd]; [reflexivity|]. rewrite !app_length, IH.
  rewrite (Permutation_length (sort_vals_perm v)). reflexivity.
Qed.

Theorem count_conserved_lemma es : length (flat_map snd (group_entries es)) = length es.
Proof.
  destruct (fold_invariants es [] (NoDup_nil _) (Forall_nil _)) as [_ [_ [C _]]]. cbn in C. unfold total in C.
  unfold group_entries. rewrite sorted_total. exact C.
Qed.

(** * Time order of the unlimited answer (so that "the first L entries" are the L earliest) *)
From LogQLV Require Import Spec.LogSpec Proofs.EngineP.

Definition rec_le (a b : record) : Prop := r_ts a <= r_ts b.
Definition ent_le (a b : entry) : Prop := e_ts a <= e_ts b.

Lemma contribution_ts o q r e : In e (contribution o q r) -> e_ts e = r_ts r.
Proof.
  unfold contribution. destruct (matches o q r) as [[e'|]|] eqn:Em; cbn; try contradiction.
  intros [<-|[]]. apply (matches_preserves o q r e' Em).
Qed.

Lemma result_time_ordered_lemma o q recs es :
  spec_select o q recs = Some es -> StronglySorted rec_le recs -> StronglySorted ent_le es.
Proof.
  intros Hs Hsorted. rewrite (spec_select_flat_map o q recs es Hs). clear Hs es.
  induction Hsorted as [|r t Ht IH Hall]; cbn; [constructor|].
  assert (Hrest : Forall (fun e' => r_ts r <= e_ts e') (flat_map (contribution o q) t)).
  { apply Forall_forall. intros e' He'. apply in_flat_map in He' as [r' [Hin Hc]].
    rewrite (contribution_ts o q r' e' Hc). rewrite Forall_forall in Hall. apply (Hall r' Hin). }
  unfold contribution at 1. destruct (matches o q r) as [[e|]|] eqn:Em; cbn; try exact IH.
  constructor; [exact IH|]. destruct (matches_preserves o q r e Em) as [Hts _].
  eapply Forall_impl; [|exact Hrest]. intros e' H. unfold ent_le. cbn beta in H. rewrite Hts. exact H.
Qed.
