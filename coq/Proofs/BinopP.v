(** C12: binary operations combine matching series pointwise. *)
From LogQLV Require Import Base.Bytes Base.FloatX Base.LMap Model.Tables Model.Stages Model.Engine Model.Metric Spec.MetricSpec Proofs.GroupP.

(** * The sample operators *)
Definition is_arith (op : binop) : bool := match op with OpAdd | OpSub | OpMul | OpDiv => true | _ => false end.
Definition is_cmp (op : binop) : bool := match op with OpEq | OpNotEq | OpGt | OpGte | OpLt | OpLte => true | _ => false end.

Definition arith_sem (op : binop) (l r : float) : float :=
  match op with
  | OpAdd => PrimFloat.add l r | OpSub => PrimFloat.sub l r | OpMul => PrimFloat.mul l r
  | _ => if PrimFloat.eqb r zero then nan else PrimFloat.div l r
  end.
Definition cmp_sem (op : binop) (l r : float) : bool :=
  match op with
  | OpEq => PrimFloat.eqb l r | OpNotEq => negb (PrimFloat.eqb l r) | OpGt => PrimFloat.ltb r l
  | OpGte => PrimFloat.leb r l | OpLt => PrimFloat.ltb l r | _ => PrimFloat.leb l r
  end.

(** + - * / always keep the series; the value is the IEEE operation with the operands on the sides they were written *)
Lemma arith_op_lemma op rb l r : is_arith op = true -> sample_op op rb l r = Some (arith_sem op l r, true).
Proof. destruct op; cbn; try discriminate; intros _; try reflexivity. destruct (PrimFloat.eqb r zero); reflexivity. Qed.

(** x / 0 and x % 0 are NaN (for +0 and -0) *)
Lemma div0_nan_lemma rb l r : PrimFloat.eqb r zero = true -> sample_op OpDiv rb l r = Some (nan, true) /\ sample_op OpMod rb l r = Some (nan, true).
Proof. intro H. cbn. rewrite H. cbn. split; reflexivity. Qed.

(** a comparison yields 1 exactly where it holds; where it does not, 0 (kept) without `bool`, nothing with it *)
Lemma cmp_op_lemma op rb l r : is_cmp op = true ->
  sample_op op rb l r = if cmp_sem op l r then Some (one, true) else Some (zero, negb rb).
Proof. destruct op; cbn; try discriminate; intros _; reflexivity. Qed.

(** * vector (op) scalar: one output per kept input series, labels untouched, the scalar on its side *)
Lemma opt_seq_some {A} (l : list (option A)) r : opt_seq l = Some r -> l = map Some r.
Proof.
  revert r; induction l as [|[x|] t IH]; intros r H; cbn in H; [inversion H; reflexivity| |discriminate].
  destruct (opt_seq t) as [r'|]; [|discriminate]. inversion H; subst. cbn. f_equal. apply IH; reflexivity.
Qed.

Theorem lit_arith_lemma op rb lit onleft s s' : is_arith op = true ->
  lit_step op rb lit onleft s = Some s' ->
  st_ts s' = st_ts s /\
  st_samples s' = map (fun sm : sample => (if onleft then arith_sem op lit (fst sm) else arith_sem op (fst sm) lit, snd sm)) (st_samples s).
Proof.
  intros Ha H. unfold lit_step in H.
  assert (Hm : map (fun sm : sample =>
                      match (if onleft then sample_op op rb lit (fst sm) else sample_op op rb (fst sm) lit) with
                      | Some (v, true) => Some (Some (v, snd sm)) | Some (_, false) => Some None | None => None end) (st_samples s) =
               map (fun sm : sample => Some (Some (if onleft then arith_sem op lit (fst sm) else arith_sem op (fst sm) lit, snd sm))) (st_samples s)).
  { apply map_ext. intro sm. destruct onleft; rewrite (arith_op_lemma op rb _ _ Ha); reflexivity. }
  rewrite Hm in H. clear Hm.
  assert (Hs : forall (l : list sample) (f : sample -> sample), opt_seq (map (fun sm => Some (Some (f sm))) l) = Some (map (fun sm => Some (f sm)) l)).
  { intros l f. induction l as [|x t IH]; cbn; [reflexivity|]. rewrite IH. reflexivity. }
  rewrite Hs in H. inversion H; subst. cbn. split; [reflexivity|]. clear.
  induction (st_samples s) as [|x t IH]; cbn; [reflexivity|]. f_equal. exact IH.
Qed.

(** * and / or / unless by label set *)
Lemma has_key_iff key l : has_key key l = true <-> exists s, In s l /\ key_of (snd s) = key.
Proof.
  unfold has_key. rewrite existsb_exists. split; intros [s [H1 H2]]; exists s; split; auto; [apply lmap_eqb_eq; exact H2|apply lmap_eqb_eq; exact H2].
Qed.

Lemma and_in l r s : In s (st_samples (merge_step OpAnd l r)) <-> In s (st_samples l) /\ has_key (key_of (snd s)) (st_samples r) = true.
Proof.
  unfold merge_step. cbn [st_samples]. destruct (st_samples l) as [|a la]; destruct (st_samples r) as [|b lb].
  - split; [intros []|intros [[] _]].
  - split; [intros []|intros [[] _]].
  - split; [intros []|intros [_ H]; discriminate].
  - rewrite filter_In. reflexivity.
Qed.

Lemma unless_in l r s : In s (st_samples (merge_step OpUnless l r)) <-> In s (st_samples l) /\ has_key (key_of (snd s)) (st_samples r) = false.
Proof.
  unfold merge_step. cbn [st_samples]. destruct (st_samples l) as [|a la]; destruct (st_samples r) as [|b lb].
  - split; [intros []|intros [[] _]].
  - split; [intros []|intros [[] _]].
  - split; [intro H; split; [exact H|reflexivity]|intros [H _]; exact H].
  - rewrite filter_In, negb_true_iff. reflexivity.
Qed.

Lemma or_in l r s : In s (st_samples (merge_step OpOr l r)) <-> In s (st_samples l) \/ (In s (st_samples r) /\ has_key (key_of (snd s)) (st_samples l) = false).
Proof.
  unfold merge_step. cbn [st_samples]. destruct (st_samples l) as [|a la]; destruct (st_samples r) as [|b lb].
  - split; [intros []|intros [[]|[[] _]]].
  - split; [intro H; right; split; [exact H|reflexivity]|intros [[]|[H _]]; exact H].
  - split; [intro H; left; exact H|intros [H|[[] _]]; exact H].
  - rewrite in_app_iff, filter_In, negb_true_iff. reflexivity.
Qed.

Theorem set_ops_lemma l r s :
  (In s (st_samples (merge_step OpAnd l r)) <-> In s (st_samples l) /\ has_key (key_of (snd s)) (st_samples r) = true) /\
  (In s (st_samples (merge_step OpUnless l r)) <-> In s (st_samples l) /\ has_key (key_of (snd s)) (st_samples r) = false) /\
  (In s (st_samples (merge_step OpOr l r)) <-> In s (st_samples l) \/ (In s (st_samples r) /\ has_key (key_of (snd s)) (st_samples l) = false)) /\
  st_ts (merge_step OpAnd l r) = st_ts l /\ st_ts (merge_step OpOr l r) = st_ts l /\ st_ts (merge_step OpUnless l r) = st_ts l.
Proof.
  split; [apply and_in|]. split; [apply unless_in|]. split; [apply or_in|]. repeat split.
Qed.

(** * vector (op) vector: one output per right sample whose label set is on the left; left labels; both values *)
Theorem vec_binop_lemma op rb l r out : is_arith op = true ->
  binop_step op rb l r = Some out ->
  st_ts out = st_ts l /\
  st_samples out = flat_map (fun rs : sample => match find_sample (key_of (snd rs)) (st_samples l) with
                                              | Some ls => [(arith_sem op (fst ls) (fst rs), snd ls)]
                                              | None => []
                                              end) (st_samples r).
Proof.
  intros Ha H. unfold binop_step in H.
  destruct (opt_seq _) as [l'|] eqn:E; [|discriminate]. inversion H; subst. cbn. split; [reflexivity|].
  apply opt_seq_some in E. clear H. revert l' E. induction (st_samples r) as [|rs t IH]; intros l' E; destruct l' as [|x l']; cbn in *; try discriminate; [reflexivity|].
  inversion E as [[E1 E2]]. rewrite (IH l' E2). f_equal.
  destruct (find_sample (key_of (snd rs)) (st_samples l)) as [ls|]; [|inversion E1; reflexivity].
  rewrite (arith_op_lemma op rb _ _ Ha) in E1. inversion E1; reflexivity.
Qed.
