(** C05: the TEXT of one binary operation between two range aggregations, with or without a modifier, lexes and parses to its tree:
      rate({a="x"}[5m]) / on(x) group_left(y) rate({a="x"}[5m])      count_over_time(..) > bool count_over_time(..)      a unless b
    for every layout the tight-layout theorem covers (any white space / comments between tokens, none where the next character cannot
    continue the token).  Composition of Proofs/LexParseP.v (lexing) with Proofs/BinModP.v (parsing). *)
From LogQLV Require Import Base.Bytes Base.FloatX Model.Tables Model.Syntax Model.Parser Proofs.ParserP Proofs.PipelineP Proofs.LogRangeP Proofs.QueryP
  Proofs.BinRangeP Proofs.BinModP Model.Lexer Proofs.LexerP Proofs.LexerTightP Proofs.LexParseP.
From Coq Require Import Lia.

Section BinText.
  Variable anch : bytes -> bool.
  Variable re_names : bytes -> option (list bytes).
  Variable dur : bytes -> option Z.
  Notation lexable := (lexable anch re_names dur).

  Ltac punct_lex := split; [vm_compute; repeat split; reflexivity|reflexivity].
  Ltac fl := repeat (apply Forall_cons || apply Forall_nil).

  (** what the text theorems ask of an operand: printable matcher values, label names that are not keywords, durations in digits and one unit *)
  Definition text_operand (a : operand) (r : list token) : Prop :=
    range_validate (a_op a) None None false = true /\ Forall (text_matcher anch) (a_sel a) /\ Forall text_stage (a_sts a) /\
    chain_ok anch re_names (a_sts a) (print_range (a_rtxt a) (a_rns a) (a_off a) ++ punct TCloseParen :: r) /\
    text_dur dur (a_rtxt a) (a_rns a) /\ text_offset dur (a_off a).

  Lemma text_operand_wf a r : text_operand a r -> wf_operand anch re_names kw_cls a r.
  Proof. intros [Hv [Hm [_ [Hc _]]]]. destruct (text_matchers_wf anch _ Hm) as [W1 W2]. repeat split; assumption. Qed.

  Lemma operand_toks a r : text_operand a r ->
    Forall lexable (print_operand anch re_names kw_cls a) /\ closed (map ltok_of (print_operand anch re_names kw_cls a)).
  Proof. intros [_ [Hm [Ht [Hc [Hr Ho]]]]]. exact (range_agg_toks anch re_names dur _ _ _ _ _ _ _ Hm Ht Hc Hr Ho). Qed.

  Lemma bin_tok_lex op : metric_op op = true -> lexable (punct (bin_tok op)) /\ is_fun_ltok (ltok_of (punct (bin_tok op))) = false.
  Proof. destruct op; intro H; try discriminate H; split; try punct_lex; reflexivity. Qed.

  Definition text_mod (m : msrc) : Prop :=
    match ms_join m with
    | None => True
    | Some (_, ls, None) => text_names ls
    | Some (_, ls, Some (_, inc)) => text_names ls /\ text_names inc
    end.

  Lemma labels_toks ls : text_names ls -> Forall lexable (print_labels ls) /\ closed (map ltok_of (print_labels ls)).
  Proof.
    intro Hn. destruct (names_toks anch re_names dur _ Hn) as [N1 N2]. unfold print_labels. split.
    - constructor; [punct_lex|]. apply Forall_app. split; [exact N1|]. fl. punct_lex.
    - cbn [map]. apply closed_cons; [reflexivity|]. rewrite map_app. apply closed_app; [exact N2|]. apply closed_one. reflexivity.
  Qed.

  Lemma mod_toks m : text_mod m -> Forall lexable (print_mod m) /\ closed (map ltok_of (print_mod m)).
  Proof.
    destruct m as [b j]. unfold text_mod, print_mod. cbn [ms_bool ms_join]. intro Ht.
    assert (Hb : Forall lexable (if b then [punct TBool] else []) /\ closed (map ltok_of (if b then [punct TBool] else []))).
    { destruct b; split; [fl; punct_lex|apply closed_one; reflexivity|constructor|apply closed_nil]. }
    destruct Hb as [B1 B2].
    assert (Hj : Forall lexable (print_join j) /\ closed (map ltok_of (print_join j))).
    { destruct j as [[[jn ls] g]|]; [|split; [constructor|apply closed_nil]].
      cbn [print_join].
      assert (Hls : text_names ls) by (destruct g as [[gd inc]|]; [exact (proj1 Ht)|exact Ht]).
      destruct (labels_toks ls Hls) as [L1 L2].
      assert (Hg : Forall lexable (print_group g) /\ closed (map ltok_of (print_group g))).
      { destruct g as [[gd inc]|]; [|split; [constructor|apply closed_nil]].
        cbn [print_group]. destruct inc as [|l inc'].
        - split; [fl; destruct gd; punct_lex|apply closed_one; destruct gd; reflexivity].
        - destruct (labels_toks (l :: inc') (proj2 Ht)) as [I1 I2]. split.
          + constructor; [destruct gd; punct_lex|exact I1].
          + cbn [map]. apply closed_cons; [destruct gd; reflexivity|exact I2]. }
      destruct Hg as [G1 G2]. split.
      - constructor; [destruct jn; punct_lex|]. apply Forall_app. split; assumption.
      - cbn [map]. apply closed_cons; [destruct jn; reflexivity|]. rewrite map_app. apply closed_app; assumption. }
    destruct Hj as [J1 J2]. split.
    - apply Forall_app. split; assumption.
    - rewrite map_app. apply closed_app; assumption.
  Qed.

  Theorem bin_mod_text_lemma (op : binop) (m : msrc) (a b : operand) (l : list (ltok * bytes)) :
    map fst l = map ltok_of (print_bin_mod anch re_names kw_cls op m a b) ->
    seps_ok l ->
    metric_op op = true -> text_mod m ->
    text_operand a (punct (bin_tok op) :: print_mod m ++ print_operand anch re_names kw_cls b) -> text_operand b [] ->
    exists toks, lex (layout l) = LexOk toks /\
      parse_tokens (map (tok_of anch re_names dur) toks) = Parsed (EBin (operand_expr a) op (mod_of m) (operand_expr b)).
  Proof.
    intros El Hs Hop Hm Ha Hb.
    destruct (operand_toks a _ Ha) as [A1 A2]. destruct (operand_toks b _ Hb) as [B1 B2].
    destruct (bin_tok_lex op Hop) as [O1 O2]. destruct (mod_toks m Hm) as [M1 M2].
    assert (Hl : Forall lexable (print_bin_mod anch re_names kw_cls op m a b)).
    { unfold print_bin_mod. apply Forall_app. split; [exact A1|]. constructor; [exact O1|]. apply Forall_app. split; assumption. }
    assert (Hc : closed (map ltok_of (print_bin_mod anch re_names kw_cls op m a b))).
    { unfold print_bin_mod. rewrite map_app. apply closed_app; [exact A2|]. cbn [map]. apply closed_cons; [exact O2|]. rewrite map_app. apply closed_app; assumption. }
    destruct (lex_tokens_lemma anch re_names dur _ l El Hs Hl (closed_funs_ok _ Hc)) as [toks [H1 H2]]. exists toks. split; [exact H1|]. rewrite H2.
    apply bin_mod_parse_lemma; [exact Hop|apply text_operand_wf; exact Ha|apply text_operand_wf; exact Hb].
  Qed.
End BinText.
