(** container/heap keeps the heap property: after Push and Pop the root is a minimum.  [less] only needs its
    negation to be transitive ("a is not below b" composes), which holds for timestamps and for NaN-free floats. *)
From Coq Require Import List Arith Bool Lia Permutation.
Import ListNotations.
From LogQLV Require Import Base.Heap Proofs.HeapP.

Section HeapOrder.
  Variable A : Type.
  Variable less : A -> A -> bool.
  Variable d : A.
  (** x <= y  :=  not (y < x) *)
  Definition le (x y : A) : Prop := less y x = false.
  Hypothesis le_trans : forall x y z, le x y -> le y z -> le x z.
  Hypothesis le_total : forall x y, le x y \/ le y x.       (* from asymmetry of less: not both y<x and x<y *)

  Notation get := (@get A d).
  Notation swap := (@swap A d).
  Notation up := (@up A less d).
  Notation down := (@down A less d).

  Definition parent (i : nat) : nat := (i - 1) / 2.

  (** heap property on the first n elements, except possibly between index [ex] and its parent *)
  Definition heap_upto (h : list A) (n : nat) : Prop := forall i, 0 < i < n -> le (get h (parent i)) (get h i).
  Definition heap_ok (h : list A) : Prop := heap_upto h (length h).

  Lemma parent_lt i : 0 < i -> parent i < i.
  Proof. intro H. unfold parent. assert ((i - 1) / 2 <= i - 1) by (apply Nat.div_le_upper_bound; lia). lia. Qed.

  Lemma parent_child i : parent (2 * i + 1) = i /\ parent (2 * i + 2) = i.
  Proof.
    unfold parent. split.
    - replace (2 * i + 1 - 1) with (i * 2) by lia. apply Nat.div_mul. lia.
    - replace (2 * i + 2 - 1) with (1 + i * 2) by lia. rewrite Nat.div_add by lia. reflexivity.
  Qed.

  Lemma child_of_parent i : 0 < i -> i = 2 * parent i + 1 \/ i = 2 * parent i + 2.
  Proof.
    intro H. unfold parent. pose proof (Nat.div_mod (i - 1) 2 ltac:(lia)) as Hd.
    pose proof (Nat.mod_upper_bound (i - 1) 2 ltac:(lia)). lia.
  Qed.

  (** * The root of a heap is below everything *)
  Lemma root_min h : heap_ok h -> forall i, i < length h -> le (get h 0) (get h i).
  Proof.
    intros Hh i. induction i as [i IH] using lt_wf_ind. intro Hi.
    destruct i as [|i]; [destruct (le_total (get h 0) (get h 0)); assumption|].
    eapply le_trans; [apply IH; [apply parent_lt; lia|pose proof (parent_lt (S i) ltac:(lia)); lia]|]. apply Hh. lia.
  Qed.

  (** * up *)
  (** invariant of up at j: everything is fine except the edge (parent j, j); and j's children are above j's parent *)
  Definition up_inv (h : list A) (j : nat) : Prop :=
    (forall i, 0 < i < length h -> i <> j -> le (get h (parent i)) (get h i)) /\
    (forall c, 0 < c < length h -> parent c = j -> 0 < j -> le (get h (parent j)) (get h c)).

  Lemma up_ok : forall f h j, j < length h -> j < f -> up_inv h j -> heap_ok (up f h j).
  Proof.
    induction f as [|f IH]; intros h j Hj Hf Hinv; [lia|]. cbn [Heap.up]. fold (parent j).
    destruct (Nat.eqb_spec (parent j) j) as [Heq|Hne].
    - (* j = 0 *)
      cbn [orb]. assert (j = 0) by (destruct j; [reflexivity|pose proof (parent_lt (S j) ltac:(lia)); lia]). subst j.
      intros i Hi. apply (proj1 Hinv); lia.
    - cbn [orb]. assert (Hj0 : 0 < j) by (destruct j; [exfalso; apply Hne; reflexivity|lia]).
      pose proof (parent_lt j Hj0) as Hp.
      destruct (less (get h j) (get h (parent j))) eqn:El; cbn [negb].
      + (* swap and continue at the parent *)
        apply IH; [rewrite swap_length; lia|lia|].
        destruct Hinv as [H1 H2]. split.
        * intros i Hi Hnp. rewrite swap_length in Hi. rewrite !get_swap by lia.
          destruct (Nat.eqb_spec i j) as [->|Hij].
          -- (* i = j: now holds the old parent; its parent index is parent j, which now holds old h[j] *)
             rewrite ?Nat.eqb_refl.
             destruct (Nat.eqb_spec (parent j) j); [lia|]. rewrite ?Nat.eqb_refl.
             (* le (old h j) (old h (parent j)) : since less (h j) (h parent) = true, by totality *)
             destruct (le_total (get h j) (get h (parent j))) as [Hle|Hle]; [exact Hle|]. unfold le in Hle. congruence.
          -- destruct (Nat.eqb_spec i (parent j)) as [->|Hip]; [contradiction|].
             destruct (Nat.eqb_spec (parent i) j) as [Hpj|Hpj].
             ++ (* i is a child of j: its parent now holds old parent value *)
                apply H2; [lia|exact Hpj|exact Hj0].
             ++ destruct (Nat.eqb_spec (parent i) (parent j)) as [Hpp|Hpp].
                ** (* sibling of j: parent now holds old h[j], which is below old parent value, which is below h[i] *)
                   eapply le_trans; [|apply H1; [lia|exact Hij]]. rewrite Hpp.
                   destruct (le_total (get h j) (get h (parent j))) as [Hle|Hle]; [exact Hle|]. unfold le in Hle. congruence.
                ** apply H1; [lia|exact Hij].
        * intros c Hc Hpc Hpos. rewrite swap_length in Hc. rewrite !get_swap by lia.
          (* c is a child of parent j (new position); parent (parent j) untouched unless equal to j (impossible) *)
          destruct (Nat.eqb_spec c j) as [->|Hcj].
          -- destruct (Nat.eqb_spec (parent (parent j)) j); [pose proof (parent_lt (parent j) Hpos); lia|].
             destruct (Nat.eqb_spec (parent (parent j)) (parent j)); [pose proof (parent_lt (parent j) Hpos); lia|].
             apply H1; [lia|]. pose proof (parent_lt (parent j) Hpos). lia.
          -- destruct (Nat.eqb_spec c (parent j)) as [->|Hcp]; [pose proof (parent_lt (parent j) Hpos); lia|].
             destruct (Nat.eqb_spec (parent (parent j)) j); [pose proof (parent_lt (parent j) Hpos); lia|].
             destruct (Nat.eqb_spec (parent (parent j)) (parent j)); [pose proof (parent_lt (parent j) Hpos); lia|].
             eapply le_trans; [apply H1; [lia|pose proof (parent_lt (parent j) Hpos); lia]|].
             rewrite <- Hpc. apply H1; [lia|exact Hcj].
      + (* stop: the edge is fine *)
        intros i Hi. destruct (Nat.eq_dec i j) as [->|Hij]; [exact El|]. apply (proj1 Hinv); assumption.
  Qed.

  Lemma get_app_l (h : list A) x i : i < length h -> get (h ++ [x]) i = get h i.
  Proof. intro H. unfold Heap.get. apply app_nth1. exact H. Qed.

  Theorem heap_push_ok h x : heap_ok h -> heap_ok (heap_push less d h x).
  Proof.
    intro Hh. unfold heap_push. rewrite app_length. cbn [length]. replace (length h + 1 - 1) with (length h) by lia.
    apply up_ok; [rewrite app_length; cbn; lia|lia|]. split.
    - intros i Hi Hne. rewrite app_length in Hi. cbn in Hi.
      assert (i < length h) by lia. rewrite !get_app_l by (try lia; pose proof (parent_lt i ltac:(lia)); lia). apply Hh. lia.
    - intros c Hc Hpc _. rewrite app_length in Hc. cbn in Hc. pose proof (parent_lt c ltac:(lia)). lia.
  Qed.

  (** * down *)
  (** invariant of down at i within the first n elements: fine except the edges (i, children of i); and i's children are above i's parent *)
  Definition down_inv (h : list A) (i n : nat) : Prop :=
    (forall c, 0 < c < n -> parent c <> i -> le (get h (parent c)) (get h c)) /\
    (forall c, 0 < c < n -> parent c = i -> 0 < i -> le (get h (parent i)) (get h c)).

  Lemma down_ok : forall f h i n, n <= length h -> i < n -> n - i <= f -> down_inv h i n -> heap_upto (down f h i n) n.
  Proof.
    induction f as [|f IH]; intros h i n Hn Hi Hf Hinv; [lia|]. cbn [Heap.down].
    set (j1 := 2 * i + 1).
    destruct (Nat.leb_spec n j1) as [Hle|Hlt].
    - (* no child inside: every c < n has parent <> i *)
      intros c Hc. apply (proj1 Hinv); [exact Hc|]. intro Hp. destruct (child_of_parent c ltac:(lia)) as [E|E]; rewrite Hp in E; unfold j1 in Hle; lia.
    - set (j := if (j1 + 1 <? n) && less (get h (j1 + 1)) (get h j1) then j1 + 1 else j1).
      assert (Hjn : j < n) by (unfold j; destruct (Nat.ltb_spec (j1 + 1) n); cbn [andb]; [destruct (less _ _)|]; lia).
      assert (Hpj : parent j = i).
      { unfold j, j1. destruct (parent_child i) as [P1 P2].
        destruct ((2 * i + 1 + 1 <? n) && less (get h (2 * i + 1 + 1)) (get h (2 * i + 1))); [replace (2 * i + 1 + 1) with (2 * i + 2) by lia; exact P2|exact P1]. }
      assert (Hji : i < j) by (unfold j, j1; destruct ((2 * i + 1 + 1 <? n) && _); lia).
      (* j is a smallest child *)
      assert (Hsmall : forall c, 0 < c < n -> parent c = i -> le (get h j) (get h c)).
      { intros c Hc Hp. destruct (child_of_parent c ltac:(lia)) as [E|E]; rewrite Hp in E.
        - (* c = j1 *) subst c. fold j1. unfold j. destruct (Nat.ltb_spec (j1 + 1) n); cbn [andb].
          + destruct (less (get h (j1 + 1)) (get h j1)) eqn:El.
            * destruct (le_total (get h (j1 + 1)) (get h j1)) as [Hq|Hq]; [exact Hq|unfold le in Hq; congruence].
            * destruct (le_total (get h j1) (get h j1)); assumption.
          + destruct (le_total (get h j1) (get h j1)); assumption.
        - (* c = j1 + 1 *) replace c with (j1 + 1) by (unfold j1; lia). unfold j.
          assert (j1 + 1 < n) by (unfold j1; lia). destruct (Nat.ltb_spec (j1 + 1) n); [|lia]. cbn [andb].
          destruct (less (get h (j1 + 1)) (get h j1)) eqn:El.
          + destruct (le_total (get h (j1 + 1)) (get h (j1 + 1))); assumption.
          + exact El. }
      destruct (less (get h j) (get h i)) eqn:El; cbn [negb].
      + (* swap i and j, continue at j *)
        apply IH; [rewrite swap_length; lia|exact Hjn|lia|].
        destruct Hinv as [H1 H2]. split.
        * intros c Hc Hpc. rewrite !get_swap by lia.
          destruct (Nat.eqb_spec c j) as [->|Hcj].
          -- (* c = j now holds old h[i]; its parent i now holds old h[j] *)
             rewrite Hpj. destruct (Nat.eqb_spec i j); [lia|]. rewrite Nat.eqb_refl.
             destruct (le_total (get h j) (get h i)) as [Hq|Hq]; [exact Hq|unfold le in Hq; congruence].
          -- destruct (Nat.eqb_spec c i) as [->|Hci].
             ++ (* c = i now holds old h[j]; parent i untouched (parent i < i < j) *)
                assert (0 < i) by lia. pose proof (parent_lt i ltac:(lia)).
                destruct (Nat.eqb_spec (parent i) j); [lia|]. destruct (Nat.eqb_spec (parent i) i); [lia|].
                apply H2; [lia|exact Hpj|lia].
             ++ destruct (Nat.eqb_spec (parent c) j) as [Hx|Hx]; [contradiction|].
                destruct (Nat.eqb_spec (parent c) i) as [Hy|Hy].
                ** (* the other child of i: parent now holds old h[j], the smallest child *) apply Hsmall; [exact Hc|exact Hy].
                ** apply H1; assumption.
        * intros c Hc Hpc Hpos. rewrite !get_swap by lia.
          (* c child of j; parent j = i now holds old h[j]; c untouched *)
          destruct (Nat.eqb_spec c j) as [->|Hcj]; [pose proof (parent_lt j ltac:(lia)); lia|].
          destruct (Nat.eqb_spec c i) as [->|Hci]; [pose proof (parent_lt i ltac:(lia)); lia|].
          rewrite Hpj. destruct (Nat.eqb_spec i j); [lia|]. rewrite Nat.eqb_refl.
          rewrite <- Hpc. apply H1; [exact Hc|]. rewrite Hpc. lia.
      + (* stop: i is below its smallest child, hence below both *)
        intros c Hc. destruct (Nat.eq_dec (parent c) i) as [Hp|Hp]; [|apply (proj1 Hinv); assumption].
        rewrite Hp. eapply le_trans; [exact El|apply Hsmall; assumption].
  Qed.

  Lemma get_firstn (h : list A) n i : i < n -> get (firstn n h) i = get h i.
  Proof.
    unfold Heap.get. revert n i; induction h as [|x t IH]; intros [|n] [|i] H; cbn; try lia; try reflexivity. apply IH. lia.
  Qed.

  Lemma heap_pop_eq (h : list A) : h <> [] ->
    heap_pop less d h = Some (get (down (length h) (swap h 0 (length h - 1)) 0 (length h - 1)) (length h - 1),
                              firstn (length h - 1) (down (length h) (swap h 0 (length h - 1)) 0 (length h - 1))).
  Proof. destruct h; [congruence|reflexivity]. Qed.

  Theorem heap_pop_ok h0 x h' : heap_ok h0 -> heap_pop less d h0 = Some (x, h') -> heap_ok h' /\ forall y, In y h' -> le x y.
  Proof.
    intros Hh H. pose proof (heap_pop_perm A less d h0 x h' H) as P.
    assert (Hne : h0 <> []) by (intro; subst; discriminate).
    rewrite (heap_pop_eq h0 Hne) in H.
    set (n := length h0 - 1) in *.
    assert (Hl : length h0 = S n) by (unfold n; destruct h0; [congruence|cbn; lia]).
    set (h1 := swap h0 0 n) in *. set (h2 := down (length h0) h1 0 n) in *.
    injection H as Hx Hh'.
    assert (Hl1 : length h1 = S n) by (unfold h1; rewrite swap_length; exact Hl).
    (* the first n elements of h1 satisfy the heap property except at the root *)
    assert (Hinv : down_inv h1 0 n).
    { split.
      - intros c Hc Hp. unfold h1. rewrite !get_swap by lia.
        assert (parent c < c) by (apply parent_lt; lia).
        destruct (Nat.eqb_spec c n); [lia|]. destruct (Nat.eqb_spec c 0); [lia|].
        destruct (Nat.eqb_spec (parent c) n); [lia|]. destruct (Nat.eqb_spec (parent c) 0); [contradiction|].
        apply Hh. lia.
      - intros c Hc Hp Hpos. lia. }
    assert (Hok2 : heap_upto h2 n).
    { destruct n as [|n']; [intros i Hi; lia|]. unfold h2. apply down_ok; [lia|lia|lia|exact Hinv]. }
    assert (Hl2 : length h2 = S n) by (unfold h2; rewrite down_length; exact Hl1).
    split.
    - subst h'. unfold heap_ok. rewrite firstn_length, Hl2, Nat.min_l by lia.
      intros i Hi. rewrite !get_firstn by (try lia; pose proof (parent_lt i ltac:(lia)); lia). apply Hok2. exact Hi.
    - (* x is the old root: below every element of h0, and h' is a sub-multiset of h0 *)
      intros y Hy. assert (Hin : In y h0) by (eapply Permutation_in; [apply Permutation_sym; exact P|right; exact Hy]).
      assert (Hx0 : x = get h0 0).
      { subst x. unfold h2.
        (* down never touches index n: get (down ..) n = get h1 n = get h0 0 *)
        assert (Hdn : forall f h i, i < n -> S n <= length h -> get (down f h i n) n = get h n).
        { induction f as [|f IHf]; intros h i Hi Hlen; cbn [Heap.down]; [reflexivity|].
          destruct (Nat.leb_spec n (2 * i + 1)); [reflexivity|].
          set (j := if (2 * i + 1 + 1 <? n) && less (get h (2 * i + 1 + 1)) (get h (2 * i + 1)) then 2 * i + 1 + 1 else 2 * i + 1).
          assert (j < n) by (unfold j; destruct (Nat.ltb_spec (2 * i + 1 + 1) n); cbn [andb]; [destruct (less _ _)|]; lia).
          destruct (negb (less (get h j) (get h i))); [reflexivity|].
          rewrite IHf by (try lia; rewrite swap_length; lia). rewrite get_swap by lia.
          destruct (Nat.eqb_spec n j); [lia|]. destruct (Nat.eqb_spec n i); [lia|]. reflexivity. }
        destruct n as [|n'].
        - assert (Dz : forall f (h : list A) i, down f h i 0 = h) by (intros [|f] ? ?; reflexivity). rewrite Dz. unfold h1. rewrite get_swap by lia. reflexivity.
        - rewrite Hdn by lia. unfold h1. rewrite get_swap by lia. rewrite Nat.eqb_refl. reflexivity. }
      rewrite Hx0. apply In_nth with (d := d) in Hin. destruct Hin as [k [Hk Hnth]]. rewrite <- Hnth. apply (root_min h0 Hh k Hk).
  Qed.
End HeapOrder.
