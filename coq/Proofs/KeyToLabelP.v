From LogQLV Require Import Base.Bytes Base.Utf8 Model.KeyToLabel.
From Coq Require Import ZifyBool.

(** * Specification: what the property says the mapping is *)

Definition starts_digit (s : bytes) : bool :=
  match s with b :: _ => is_digit_r (bz b) | [] => false end.

Definition spec_ktl (k : bytes) : bytes :=
  (if starts_digit k then [underscore] else []) ++ slow k.

(** * Facts about the decoder used by both loops *)

Lemma ok_rune_ascii r : ok_rune r = true -> r < 128.
Proof. unfold ok_rune, is_digit_r, is_alpha_r. lia. Qed.

Lemma digit_ascii r : is_digit_r r = true -> r < 128.
Proof. unfold is_digit_r. lia. Qed.

Lemma decode_ascii_byte b t : bz b < 128 -> decode_rune (b :: t) = Some (bz b, 1%nat).
Proof. intro H. unfold decode_rune. apply Z.ltb_lt in H. rewrite H. reflexivity. Qed.

Lemma decode_nonascii_byte b t r w : 128 <= bz b -> decode_rune (b :: t) = Some (r, w) -> 128 <= r.
Proof.
  intros Hb H. destruct (Z_lt_ge_dec r 128) as [Hr|Hr]; [|lia].
  destruct (decode_rune_ascii _ _ _ H Hr) as [_ [b' [t' [E1 E2]]]]. inversion E1; subst. lia.
Qed.

Lemma decode_cons_some b t : exists r w, decode_rune (b :: t) = Some (r, w).
Proof.
  unfold decode_rune.
  repeat match goal with
  | |- context [if ?c then _ else _] => destruct c
  | |- context [let '(_, _) := ?p in _] => destruct p
  | |- context [match ?l with [] => _ | _ :: _ => _ end] => destruct l
  end; eauto.
Qed.

(** * The slow loop does not depend on surplus fuel *)

Lemma slow_fuel_enough f : forall s, (length s <= f)%nat -> slow_fuel f s = slow_fuel (length s) s.
Proof.
  induction f as [f IH] using lt_wf_ind. intros s Hle.
  destruct s as [|b t].
  - destruct f; reflexivity.
  - destruct f as [|f]; [cbn in Hle; lia|].
    cbn [length slow_fuel].
    destruct (decode_rune (b :: t)) as [[r w]|] eqn:E; [|reflexivity].
    pose proof (decode_rune_width _ _ _ E) as Hw. cbn [length] in Hw.
    assert (length (skipn w (b :: t)) <= length t)%nat as Hs.
    { rewrite skipn_length. cbn [length]. lia. }
    f_equal.
    rewrite (IH f) by (cbn in Hle; lia).
    rewrite (IH (length t)) by (cbn in Hle; lia). reflexivity.
Qed.

Lemma slow_nil : slow [] = [].
Proof. reflexivity. Qed.

Lemma slow_cons b t :
  slow (b :: t) =
  match decode_rune (b :: t) with
  | Some (r, w) => (if ok_rune r then firstn w (b :: t) else [underscore]) ++ slow (skipn w (b :: t))
  | None => []
  end.
Proof.
  unfold slow at 1. cbn [length slow_fuel].
  destruct (decode_rune (b :: t)) as [[r w]|] eqn:E; [|reflexivity].
  pose proof (decode_rune_width _ _ _ E) as Hw. cbn [length] in Hw.
  f_equal. unfold slow. apply slow_fuel_enough.
  rewrite skipn_length. cbn [length]. lia.
Qed.

Lemma slow_ok_byte b t : ok_byte b = true -> slow (b :: t) = b :: slow t.
Proof.
  intro H. unfold ok_byte in H. rewrite slow_cons.
  rewrite decode_ascii_byte by (apply ok_rune_ascii; exact H).
  rewrite H. reflexivity.
Qed.

(** * The fast path agrees with the specification *)

Lemma fast_spec f : forall first pre rest,
  (first = true -> pre = []) ->
  (length rest <= f)%nat ->
  fast_fuel f first pre rest =
    pre ++ (if first && starts_digit rest then [underscore] else []) ++ slow rest.
Proof.
  induction f as [|f IH]; intros first pre rest Hpre Hle.
  - destruct rest; [|cbn in Hle; lia]. cbn. rewrite andb_false_r. reflexivity.
  - cbn [fast_fuel]. destruct rest as [|b t].
    + cbn. rewrite andb_false_r, app_nil_r. reflexivity.
    + destruct (decode_cons_some b t) as [r [w E]]. rewrite E.
      destruct (Z_lt_ge_dec (bz b) 128) as [Hb|Hb].
      * rewrite decode_ascii_byte in E by exact Hb. inversion E; subst r w; clear E.
        cbn [starts_digit firstn skipn].
        destruct (is_digit_r (bz b)) eqn:Ed.
        { destruct first; cbn [andb].
          - rewrite Hpre by reflexivity. reflexivity.
          - rewrite IH by (try discriminate; cbn in Hle; lia). cbn [andb app].
            rewrite slow_ok_byte by (unfold ok_byte, ok_rune; rewrite Ed; apply orb_true_r || (rewrite orb_true_r; reflexivity)).
            rewrite <- app_assoc. reflexivity. }
        destruct ((bz b =? 95) || is_alpha_r (bz b)) eqn:Ea.
        { rewrite IH by (try discriminate; cbn in Hle; lia). rewrite andb_false_r. cbn [app andb].
          rewrite slow_ok_byte.
          - rewrite <- app_assoc. reflexivity.
          - unfold ok_byte, ok_rune. rewrite Ed. rewrite orb_false_r. exact Ea. }
        rewrite andb_false_r. reflexivity.
      * assert (128 <= bz b) as Hb2 by lia. pose proof (decode_nonascii_byte _ _ _ _ Hb2 E) as Hr.
        assert (is_digit_r r = false) as Ed by (unfold is_digit_r; lia).
        assert ((r =? 95) || is_alpha_r r = false) as Ea by (unfold is_alpha_r; lia).
        rewrite Ed, Ea. cbn [starts_digit].
        assert (is_digit_r (bz b) = false) as Ed' by (unfold is_digit_r; lia).
        rewrite Ed', andb_false_r. reflexivity.
Qed.

Lemma ktl_spec k : key_to_label k = spec_ktl k.
Proof. unfold key_to_label, spec_ktl. rewrite fast_spec by (auto; lia). reflexivity. Qed.

(** * Validity of the result *)

Lemma slow_all_ok_fuel f : forall s, (length s <= f)%nat -> forallb ok_byte (slow s) = true.
Proof.
  induction f as [f IH] using lt_wf_ind. intros s Hle.
  destruct s as [|b t]; [reflexivity|].
  rewrite slow_cons.
  destruct (decode_cons_some b t) as [r [w E]]. rewrite E.
  pose proof (decode_rune_width _ _ _ E) as Hw. cbn [length] in Hw.
  rewrite forallb_app. apply andb_true_iff; split.
  - destruct (ok_rune r) eqn:Eo; [|reflexivity].
    destruct (decode_rune_ascii _ _ _ E (ok_rune_ascii _ Eo)) as [-> [b' [t' [E1 E2]]]].
    inversion E1; subst b' t'. cbn. unfold ok_byte. rewrite E2, Eo. reflexivity.
  - destruct f as [|f]; [cbn in Hle; lia|].
    apply (IH f); [lia|]. rewrite skipn_length. cbn [length] in *. lia.
Qed.

Lemma slow_all_ok s : forallb ok_byte (slow s) = true.
Proof. apply (slow_all_ok_fuel (length s)). lia. Qed.

Lemma ok_underscore : ok_byte underscore = true.
Proof. reflexivity. Qed.

Lemma slow_head_not_digit s : starts_digit s = false ->
  match slow s with b :: _ => negb (is_digit_r (bz b)) | [] => true end = true.
Proof.
  destruct s as [|b t]; [reflexivity|]. cbn [starts_digit]. intro Hd.
  rewrite slow_cons. destruct (decode_cons_some b t) as [r [w E]]. rewrite E.
  destruct (ok_rune r) eqn:Eo.
  - destruct (decode_rune_ascii _ _ _ E (ok_rune_ascii _ Eo)) as [-> [b' [t' [E1 E2]]]].
    inversion E1; subst b' t'. cbn. rewrite Hd. reflexivity.
  - reflexivity.
Qed.

Lemma ktl_valid_lemma k : valid_label (key_to_label k) = true.
Proof.
  rewrite ktl_spec. unfold spec_ktl, valid_label.
  destruct (starts_digit k) eqn:Ed.
  - cbn [app forallb]. rewrite ok_underscore, slow_all_ok. reflexivity.
  - cbn [app]. rewrite slow_all_ok. cbn [andb]. apply slow_head_not_digit. exact Ed.
Qed.

(** * Identity on valid names, idempotence *)

Lemma slow_id s : forallb ok_byte s = true -> slow s = s.
Proof.
  induction s as [|b t IH]; [reflexivity|]. cbn [forallb]. intro H.
  apply andb_true_iff in H as [H1 H2]. rewrite slow_ok_byte by exact H1. rewrite IH by exact H2. reflexivity.
Qed.

Lemma ktl_id_lemma k : valid_label k = true -> key_to_label k = k.
Proof.
  unfold valid_label. intro H. apply andb_true_iff in H as [H1 H2].
  rewrite ktl_spec. unfold spec_ktl. rewrite slow_id by exact H1.
  destruct k as [|b t]; [reflexivity|]. cbn [starts_digit].
  apply negb_true_iff in H2. rewrite H2. reflexivity.
Qed.

Lemma ktl_idem_lemma k : key_to_label (key_to_label k) = key_to_label k.
Proof. apply ktl_id_lemma, ktl_valid_lemma. Qed.

(** * Pointwise reading of [slow]: one output chunk per rune *)

Definition rune_image (s : bytes) (r : Z) (w : nat) : bytes :=
  if ok_rune r then firstn w s else [underscore].

Fixpoint chunks_fuel (fuel : nat) (s : bytes) : list bytes :=
  match fuel with
  | O => []
  | S f => match decode_rune s with
           | None => []
           | Some (r, w) => rune_image s r w :: chunks_fuel f (skipn w s)
           end
  end.

Lemma slow_is_concat_chunks f s : slow_fuel f s = concat (chunks_fuel f s).
Proof.
  revert s; induction f as [|f IH]; intro s; [reflexivity|].
  cbn [slow_fuel chunks_fuel]. destruct (decode_rune s) as [[r w]|]; [|reflexivity].
  cbn [concat]. rewrite IH. reflexivity.
Qed.

Lemma chunk_is_rune_or_underscore s r w : decode_rune s = Some (r, w) ->
  (ok_rune r = true /\ rune_image s r w = firstn 1 s /\ w = 1%nat) \/
  (ok_rune r = false /\ rune_image s r w = [underscore]).
Proof.
  intro E. unfold rune_image. destruct (ok_rune r) eqn:Eo; [left|right; auto].
  destruct (decode_rune_ascii _ _ _ E (ok_rune_ascii _ Eo)) as [-> _]. auto.
Qed.
