From LogQLV Require Import Base.Bytes Base.Outcome Base.TimeFmt Model.Render.
From Coq Require Import Permutation Sorted ZifyBool ZifyNat.

(** * Sorting *)
Lemma insert_ts_perm e l : Permutation (insert_ts e l) (e :: l).
Proof.
  induction l as [|x t IH]; cbn; [reflexivity|].
  destruct (re_ts e <? re_ts x); [reflexivity|].
  eapply perm_trans; [apply perm_skip, IH|apply perm_swap].
Qed.

Lemma sort_ts_perm l : Permutation (sort_ts l) l.
Proof.
  unfold sort_ts. rewrite <- (rev_involutive l) at 2.
  induction (rev l) as [|x t IH]; cbn; [reflexivity|].
  eapply perm_trans; [apply insert_ts_perm|].
  eapply perm_trans; [apply perm_skip, IH|]. apply Permutation_cons_append.
Qed.

Fixpoint sorted_ts (l : list rentry) : Prop :=
  match l with
  | a :: (b :: _) as t => re_ts a <= re_ts b /\ sorted_ts t
  | _ => True
  end.

Lemma insert_ts_sorted e l : sorted_ts l -> sorted_ts (insert_ts e l).
Proof.
  induction l as [|x t IH]; cbn; [auto|]. intro H.
  destruct (re_ts e <? re_ts x) eqn:E.
  - cbn. split; [lia|exact H].
  - destruct t as [|y t'].
    + cbn. split; [lia|auto].
    + cbn in H. destruct H as [Hxy Ht]. specialize (IH Ht). cbn in *.
      destruct (re_ts e <? re_ts y) eqn:E2; cbn; (split; [lia|]); auto.
Qed.

Lemma sort_ts_sorted l : sorted_ts (sort_ts l).
Proof. unfold sort_ts. induction (rev l) as [|x t IH]; cbn; [exact I|]. apply insert_ts_sorted, IH. Qed.

(** * Colour assignment never leaves the palette *)
Lemma index_fixed_in_palette n : (1 <= index_fixed n < palette_len)%nat.
Proof.
  unfold index_fixed, palette_len. cbn [Nat.sub].
  pose proof (Nat.mod_upper_bound n 7 ltac:(lia)). lia.
Qed.

Definition map_ok (m : list (bytes * nat)) : Prop := forall c i, lookup m c = Some i -> (1 <= i < palette_len)%nat.

Lemma lookup_app m c k v : lookup (m ++ [(k, v)]) c =
  match lookup m c with Some i => Some i | None => if bytes_eqb c k then Some v else None end.
Proof.
  induction m as [|[k' v'] t IH]; cbn; [reflexivity|].
  destruct (bytes_eqb c k'); [reflexivity|exact IH].
Qed.

Lemma assign_fixed_ok es : forall m, map_ok m ->
  exists m', assign index_fixed es m = Ok m' /\ map_ok m' /\
    (forall c i, lookup m c = Some i -> lookup m' c = Some i) /\
    (forall e, In e es -> exists i, lookup m' (re_container e) = Some i).
Proof.
  induction es as [|e t IH]; intros m Hm; cbn [assign].
  - exists m. split; [reflexivity|]. split; [exact Hm|]. split; [auto|]. intros e [].
  - destruct (lookup m (re_container e)) as [i|] eqn:El.
    + destruct (IH m Hm) as [m' [H1 [H2 [H3 H4]]]]. exists m'.
      split; [exact H1|]. split; [exact H2|]. split; [exact H3|].
      intros e' [<-|Hin]; [exists i; apply H3, El|apply H4, Hin].
    + pose proof (index_fixed_in_palette (length m)) as Hi.
      destruct (Nat.ltb_spec (index_fixed (length m)) palette_len) as [_|Hge]; [|lia].
      assert (map_ok (m ++ [(re_container e, index_fixed (length m))])) as Hm2.
      { intros c i. rewrite lookup_app. destruct (lookup m c) eqn:E; [intro H; inversion H; subst; eapply Hm; eauto|].
        destruct (bytes_eqb c (re_container e)); [intro H; inversion H; subst; exact Hi|discriminate]. }
      destruct (IH _ Hm2) as [m' [H1 [H2 [H3 H4]]]]. exists m'.
      split; [exact H1|]. split; [exact H2|]. split.
      * intros c i Hl. apply H3. rewrite lookup_app, Hl. reflexivity.
      * intros e' [<-|Hin]; [|apply H4, Hin].
        exists (index_fixed (length m)). apply H3. rewrite lookup_app, El, bytes_eqb_refl. reflexivity.
Qed.

Lemma map_ok_nil : map_ok [].
Proof. intros c i H. discriminate. Qed.

(** * Rendering is total and writes one line per entry *)
Lemma render_total_lemma o ss : exists lines, render o ss = Ok lines /\ length lines = length (flatten ss).
Proof.
  unfold render, render_with. destruct (o_color o).
  - destruct (assign_fixed_ok (flatten ss) [] map_ok_nil) as [m [H1 _]]. rewrite H1.
    eexists; split; [reflexivity|]. rewrite map_length. apply Permutation_length, sort_ts_perm.
  - eexists; split; [reflexivity|]. rewrite map_length. apply Permutation_length, sort_ts_perm.
Qed.

(** the shape of the output: one formatted line per entry of a time-sorted permutation of the entries,
    the colour code of a line being a function of its container name alone, always in the palette *)
Lemma render_shape_lemma o ss : exists (codes : bytes -> bytes) (es : list rentry),
  render o ss = Ok (map (fun e => fmt_line o (codes (re_container e)) e) es) /\
  Permutation es (flatten ss) /\ sorted_ts es /\
  (o_color o = true -> forall e, In e es -> exists i, (1 <= i < palette_len)%nat /\ codes (re_container e) = color_of_index i).
Proof.
  unfold render, render_with. destruct (o_color o) eqn:Ec.
  - destruct (assign_fixed_ok (flatten ss) [] map_ok_nil) as [m [H1 [H2 [_ H4]]]]. rewrite H1.
    exists (code_for m), (sort_ts (flatten ss)). split; [reflexivity|].
    split; [apply sort_ts_perm|]. split; [apply sort_ts_sorted|].
    intros _ e Hin. assert (In e (flatten ss)) as Hin2 by (eapply Permutation_in; [apply sort_ts_perm|exact Hin]).
    destruct (H4 e Hin2) as [i Hi]. exists i. split; [eapply H2; eauto|]. unfold code_for. rewrite Hi. reflexivity.
  - exists (fun _ => []), (sort_ts (flatten ss)). split; [reflexivity|].
    split; [apply sort_ts_perm|]. split; [apply sort_ts_sorted|]. discriminate.
Qed.

(** with colour off a line consists of the name, the timestamp, the trimmed message, spaces and a newline only *)
Lemma fmt_line_plain o code e : o_color o = false ->
  fmt_line o code e =
    (if o_container o then re_container e ++ [space_b] else []) ++
    (if o_timestamp o then fmt_ts (re_ts e) ++ [space_b] else []) ++
    trim_right_crlf (re_msg e) ++ [x0a].
Proof.
  intro H. unfold fmt_line. rewrite H. cbn [app].
  destruct (o_container o), (o_timestamp o); cbn [app]; rewrite ?app_nil_r; reflexivity.
Qed.

(** * TrimRight(v, "\r\n") *)
Lemma drop_crlf_spec l : exists k, l = k ++ drop_crlf l /\ forallb is_crlf k = true /\
  match drop_crlf l with b :: _ => is_crlf b = false | [] => True end.
Proof.
  induction l as [|b t IH]; cbn.
  - exists []. auto.
  - destruct (is_crlf b) eqn:E.
    + destruct IH as [k [H1 [H2 H3]]]. exists (b :: k). cbn. rewrite E, H2. split; [congruence|auto].
    + exists []. cbn. auto.
Qed.

Lemma trim_spec s : exists tail, s = trim_right_crlf s ++ tail /\ forallb is_crlf tail = true /\
  (forall p b, trim_right_crlf s = p ++ [b] -> is_crlf b = false).
Proof.
  unfold trim_right_crlf. destruct (drop_crlf_spec (rev s)) as [k [H1 [H2 H3]]].
  exists (rev k). split.
  - rewrite <- rev_app_distr, <- H1, rev_involutive. reflexivity.
  - split.
    + rewrite forallb_forall in *. intros x Hx. apply H2. apply in_rev. exact Hx.
    + intros p b Hp. assert (drop_crlf (rev s) = b :: rev p) as E.
      { rewrite <- (rev_involutive (drop_crlf (rev s))), Hp, rev_app_distr. reflexivity. }
      rewrite E in H3. exact H3.
Qed.
