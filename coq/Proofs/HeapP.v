From Coq Require Import List Arith Bool Lia Permutation.
Import ListNotations.
From LogQLV Require Import Base.Heap.

Section HeapP.
  Variable A : Type.
  Variable less : A -> A -> bool.
  Variable d : A.

  Notation get := (@get A d).
  Notation swap := (@swap A d).
  Notation up := (@up A less d).
  Notation down := (@down A less d).

  Lemma set_nth_length (h : list A) i x : length (set_nth h i x) = length h.
  Proof. revert i; induction h as [|y t IH]; intros [|i]; cbn; auto. Qed.

  Lemma get_set_nth_eq (h : list A) i x : i < length h -> get (set_nth h i x) i = x.
  Proof. revert i; induction h as [|y t IH]; intros [|i] H; cbn in *; try lia; auto. apply IH. lia. Qed.

  Lemma get_set_nth_neq (h : list A) i j x : i <> j -> get (set_nth h i x) j = get h j.
  Proof.
    revert i j; induction h as [|y t IH]; intros [|i] [|j] H; cbn in *; try lia; auto.
    apply IH. lia.
  Qed.

  Lemma set_nth_perm (h : list A) i x : i < length h -> Permutation (get h i :: set_nth h i x) (x :: h).
  Proof.
    revert i; induction h as [|y t IH]; intros [|i] H; cbn in *; try lia.
    - apply perm_swap.
    - eapply perm_trans; [apply perm_swap|].
      eapply perm_trans; [apply perm_skip, IH; lia|]. apply perm_swap.
  Qed.

  Lemma swap_length h i j : length (swap h i j) = length h.
  Proof. unfold Heap.swap. rewrite !set_nth_length. reflexivity. Qed.

  Lemma swap_perm h i j : i < length h -> j < length h -> Permutation (swap h i j) h.
  Proof.
    intros Hi Hj. unfold Heap.swap.
    set (h1 := set_nth h i (get h j)).
    assert (Permutation (get h i :: h1) (get h j :: h)) as P1 by (apply set_nth_perm; exact Hi).
    assert (Permutation (get h1 j :: set_nth h1 j (get h i)) (get h i :: h1)) as P2.
    { apply set_nth_perm. unfold h1. rewrite set_nth_length. exact Hj. }
    assert (get h1 j = get h j) as E.
    { unfold h1. destruct (Nat.eq_dec i j) as [->|N].
      - apply get_set_nth_eq. exact Hj.
      - apply get_set_nth_neq. exact N. }
    rewrite E in P2. eapply Permutation_cons_inv. eapply perm_trans; [exact P2|exact P1].
  Qed.

  Lemma get_swap h i j k : i < length h -> j < length h ->
    get (swap h i j) k = if Nat.eqb k j then get h i else if Nat.eqb k i then get h j else get h k.
  Proof.
    intros Hi Hj. unfold Heap.swap.
    destruct (Nat.eqb_spec k j) as [->|Nj].
    - apply get_set_nth_eq. rewrite set_nth_length. exact Hj.
    - rewrite get_set_nth_neq by auto.
      destruct (Nat.eqb_spec k i) as [->|Ni].
      + apply get_set_nth_eq. exact Hi.
      + apply get_set_nth_neq. auto.
  Qed.

  Lemma parent_le j : (j - 1) / 2 <= j.
  Proof. assert ((j - 1) / 2 <= j - 1) by (apply Nat.div_le_upper_bound; lia). lia. Qed.

  Lemma up_perm f : forall h j, j < length h -> Permutation (up f h j) h.
  Proof.
    induction f as [|f IH]; intros h j Hj; cbn [Heap.up]; [reflexivity|].
    pose proof (parent_le j) as Hi. set (i := (j - 1) / 2) in *.
    destruct ((i =? j) || negb (less (get h j) (get h i))); [reflexivity|].
    eapply perm_trans; [apply IH; rewrite swap_length; lia|]. apply swap_perm; lia.
  Qed.

  Lemma up_length f : forall h j, length (up f h j) = length h.
  Proof.
    induction f as [|f IH]; intros h j; cbn [Heap.up]; [reflexivity|].
    set (i := (j - 1) / 2) in *.
    destruct ((i =? j) || negb (less (get h j) (get h i))); [reflexivity|].
    rewrite IH, swap_length. reflexivity.
  Qed.

  Lemma down_perm f : forall h i n, n <= length h -> i < n -> Permutation (down f h i n) h.
  Proof.
    induction f as [|f IH]; intros h i n Hn Hi; cbn [Heap.down]; [reflexivity|].
    set (j1 := 2 * i + 1) in *.
    destruct (Nat.leb_spec n j1) as [|Hlt]; [reflexivity|].
    set (j := if (j1 + 1 <? n) && less (get h (j1 + 1)) (get h j1) then j1 + 1 else j1).
    assert (j < n) as Hj.
    { unfold j. destruct (Nat.ltb_spec (j1 + 1) n); cbn [andb]; [destruct (less _ _)|]; lia. }
    destruct (negb (less (get h j) (get h i))); [reflexivity|].
    eapply perm_trans; [apply IH; rewrite ?swap_length; lia|]. apply swap_perm; lia.
  Qed.

  Lemma down_length f : forall h i n, length (down f h i n) = length h.
  Proof.
    induction f as [|f IH]; intros h i n; cbn [Heap.down]; [reflexivity|].
    set (j1 := 2 * i + 1) in *.
    destruct (n <=? j1); [reflexivity|].
    match goal with |- context [negb ?c] => destruct (negb c) end; [reflexivity|].
    rewrite IH, swap_length. reflexivity.
  Qed.

  (** heap.Push keeps exactly the old elements plus the new one *)
  Lemma heap_push_perm h x : Permutation (heap_push less d h x) (x :: h).
  Proof.
    unfold heap_push. eapply perm_trans.
    - apply up_perm. rewrite app_length. cbn. lia.
    - apply Permutation_sym, Permutation_cons_append.
  Qed.

  Lemma firstn_last (l : list A) n : length l = S n -> l = firstn n l ++ [get l n].
  Proof.
    revert n; induction l as [|y t IH]; intros n H; cbn in H; [lia|].
    destruct n as [|n]; cbn.
    - destruct t; [reflexivity|cbn in H; lia].
    - f_equal. apply IH. lia.
  Qed.

  (** heap.Pop removes exactly the element it returns *)
  Lemma heap_pop_perm h x h' : heap_pop less d h = Some (x, h') -> Permutation h (x :: h').
  Proof.
    unfold heap_pop. destruct h as [|y t]; [discriminate|].
    set (h0 := y :: t). set (n := length h0 - 1).
    assert (length h0 = S n) as Hl by (unfold n, h0; cbn; lia).
    intro H. inversion H; subst x h'; clear H.
    set (h2 := down (length h0) (swap h0 0 n) 0 n).
    assert (Permutation h2 h0) as P.
    { unfold h2. destruct n as [|n'].
      - assert (forall f (h : list A) i, down f h i 0 = h) as Dz by (intros [|f] ? ?; reflexivity).
        rewrite Dz. apply swap_perm; lia.
      - eapply perm_trans; [apply down_perm; rewrite ?swap_length; lia|]. apply swap_perm; lia. }
    assert (length h2 = S n) as Hl2.
    { unfold h2. rewrite down_length, swap_length. exact Hl. }
    rewrite (firstn_last h2 n Hl2) in P.
    eapply perm_trans; [apply Permutation_sym, P|].
    apply Permutation_sym, Permutation_cons_append.
  Qed.

  Lemma heap_pop_length h x h' : heap_pop less d h = Some (x, h') -> length h = S (length h').
  Proof. intro H. apply heap_pop_perm in H. apply Permutation_length in H. exact H. Qed.

  Lemma heap_pop_none h : heap_pop less d h = None <-> h = [].
  Proof. unfold heap_pop. destruct h; split; intro H; try discriminate; reflexivity. Qed.
End HeapP.
