(** The heap operations apply [less] only to elements of the heap (and the default): two comparators that agree on a
    domain [P] containing all of them give the same heaps.  Used to relativise the order theorems to NaN-free samples. *)
From Coq Require Import List Arith Bool Lia Permutation.
Import ListNotations.
From LogQLV Require Import Base.Heap Proofs.HeapP.

Section HeapExt.
  Variable A : Type.
  Variable less1 less2 : A -> A -> bool.
  Variable d : A.
  Variable P : A -> Prop.
  Hypothesis agree : forall x y, P x -> P y -> less1 x y = less2 x y.
  Hypothesis Pd : P d.

  Lemma get_P h i : Forall P h -> P (get d h i).
  Proof.
    intro H. unfold get. destruct (Nat.lt_ge_cases i (length h)) as [Hi|Hi].
    - rewrite Forall_forall in H. apply H. apply nth_In. exact Hi.
    - rewrite nth_overflow by exact Hi. exact Pd.
  Qed.

  Lemma set_nth_P h i x : Forall P h -> P x -> Forall P (set_nth h i x).
  Proof.
    intros H Hx. revert i. induction H as [|y t Hy Ht IH]; intros [|i]; cbn; constructor; auto.
  Qed.

  Lemma swap_P h i j : Forall P h -> Forall P (swap d h i j).
  Proof. intro H. unfold swap. apply set_nth_P; [apply set_nth_P; [exact H|apply get_P; exact H]|apply get_P; exact H]. Qed.

  Lemma up_ext f : forall h j, Forall P h -> up less1 d f h j = up less2 d f h j.
  Proof.
    induction f as [|f IH]; intros h j H; cbn [up]; [reflexivity|].
    rewrite (agree _ _ (get_P h j H) (get_P h ((j - 1) / 2) H)).
    destruct (((j - 1) / 2 =? j) || negb (less2 (get d h j) (get d h ((j - 1) / 2)))); [reflexivity|].
    apply IH. apply swap_P. exact H.
  Qed.

  Lemma down_ext f : forall h i n, Forall P h -> down less1 d f h i n = down less2 d f h i n.
  Proof.
    induction f as [|f IH]; intros h i n H; cbn [down]; [reflexivity|].
    destruct (n <=? 2 * i + 1); [reflexivity|].
    rewrite (agree _ _ (get_P h (2 * i + 1 + 1) H) (get_P h (2 * i + 1) H)).
    set (j := if (2 * i + 1 + 1 <? n) && less2 (get d h (2 * i + 1 + 1)) (get d h (2 * i + 1)) then 2 * i + 1 + 1 else 2 * i + 1).
    rewrite (agree _ _ (get_P h j H) (get_P h i H)).
    destruct (negb (less2 (get d h j) (get d h i))); [reflexivity|].
    apply IH. apply swap_P. exact H.
  Qed.

  Lemma heap_push_ext h x : Forall P h -> P x -> heap_push less1 d h x = heap_push less2 d h x.
  Proof. intros H Hx. unfold heap_push. apply up_ext. apply Forall_app. split; [exact H|constructor; [exact Hx|constructor]]. Qed.

  Lemma heap_pop_ext h : Forall P h -> heap_pop less1 d h = heap_pop less2 d h.
  Proof. intro H. unfold heap_pop. destruct h as [|y t]; [reflexivity|]. rewrite down_ext by (apply swap_P; exact H). reflexivity. Qed.
End HeapExt.
