(** C05: lexer and parser composed, from the TEXT of a stream selector to its matchers.
    The text is written token by token -- `{`, label, operator, "value", `,` ... `}` -- each token followed by any non-empty
    white space; label names may be keywords that are not function names (by, on, json, drop, ...: D29), values any printable
    bytes (quote and backslash escaped).  The lexer model turns the text into tokens (LexerP), the driver attaches the
    library results to the string tokens, the parser model returns exactly the matchers (ParserP). *)
From LogQLV Require Import Base.Bytes Base.TimeFmt Model.Tables Model.Syntax Model.Parser Model.Lexer Proofs.ParserP Proofs.LexerP.
From Coq Require Import Lia.

(** facts about the keyword table of the tree under verification (decided by computation on Model/Tables.v, regenerated from
    /repo on every run) *)
Lemma lookup_kw_in k : forall tbl t, lookup_kw k tbl = Some t -> In (k, t) tbl.
Proof.
  induction tbl as [|[w t'] r IH]; intros t H; [discriminate|]. cbn in H.
  destruct (bytes_eqb w k) eqn:E; [apply bytes_eqb_eq in E; subst; injection H as <-; left; reflexivity|right; apply IH; exact H].
Qed.

Lemma kw_never_string : forallb (fun kv => negb (ttype_eqb (snd kv) TString)) keyword_table = true.
Proof. vm_compute. reflexivity. Qed.
Lemma kw_closebrace_not_label : forallb (fun kv => negb (ttype_eqb (snd kv) TCloseBrace) || negb (is_valid_label (fst kv))) keyword_table = true.
Proof. vm_compute. reflexivity. Qed.

Section LexParse.
  Variable anch : bytes -> bool.
  Variable re_names : bytes -> option (list bytes).

  (** what the driver makes of a lexed token: a string token carries the results of compiling its text *)
  Definition tok_of (p : ttype * bytes) : token :=
    if ttype_eqb (fst p) TString then str_tok anch re_names (snd p) else plain (fst p) (snd p).

  (** the token type the lexer gives a label name *)
  Definition kw_cls (l : bytes) : ttype := match lookup_kw l keyword_table with Some t => t | None => TIdent end.

  Definition label_ltok (l : bytes) : ltok := match lookup_kw l keyword_table with Some t => LWord t l | None => LId l end.
  Definition punct_ltok (t : ttype) : ltok := LPunct t (spelling t).
  Definition matcher_ltoks (m : matcher) : list ltok := [label_ltok (m_label m); punct_ltok (mop_tok (m_op m)); LStr (m_value m)].
  Fixpoint matchers_ltoks (ms : list matcher) : list ltok :=
    match ms with
    | [] => []
    | [m] => matcher_ltoks m
    | m :: t => matcher_ltoks m ++ punct_ltok TComma :: matchers_ltoks t
    end.
  Definition selector_ltoks (ms : list matcher) : list ltok := punct_ltok TOpenBrace :: matchers_ltoks ms ++ [punct_ltok TCloseBrace].

  (** a matcher as it can be written in the lexer fragment *)
  Definition text_matcher (m : matcher) : Prop :=
    wf_matcher anch m /\ is_valid_label (m_label m) = true /\
    match lookup_kw (m_label m) keyword_table with Some t => is_function t = false | None => True end /\
    forallb printable (m_value m) = true.

  Lemma kw_cls_not_string l : ttype_eqb (kw_cls l) TString = false.
  Proof.
    unfold kw_cls. destruct (lookup_kw l keyword_table) as [t|] eqn:E; [|reflexivity].
    apply lookup_kw_in in E. pose proof kw_never_string as H. rewrite forallb_forall in H. specialize (H _ E). cbn in H.
    destruct (ttype_eqb t TString); [discriminate|reflexivity].
  Qed.

  Lemma kw_cls_not_closebrace l : is_valid_label l = true -> ttype_eqb (kw_cls l) TCloseBrace = false.
  Proof.
    intro Hv. unfold kw_cls. destruct (lookup_kw l keyword_table) as [t|] eqn:E; [|reflexivity].
    apply lookup_kw_in in E. pose proof kw_closebrace_not_label as H. rewrite forallb_forall in H. specialize (H _ E). cbn in H.
    rewrite Hv in H. cbn in H. rewrite orb_false_r in H. destruct (ttype_eqb t TCloseBrace); [discriminate|reflexivity].
  Qed.

  Lemma mop_tok_not_string o : ttype_eqb (mop_tok o) TString = false.
  Proof. destruct o; reflexivity. Qed.

  Lemma tok_of_label l : tok_of (lres (label_ltok l)) = plain (kw_cls l) l.
  Proof.
    pose proof (kw_cls_not_string l) as H. unfold label_ltok, kw_cls in *.
    destruct (lookup_kw l keyword_table) as [t|]; cbn [lres]; unfold tok_of; cbn [fst snd]; [rewrite H|]; reflexivity.
  Qed.

  Lemma tok_of_matcher m : map (fun t => tok_of (lres t)) (matcher_ltoks m) = print_matcher anch re_names kw_cls m.
  Proof.
    unfold matcher_ltoks, print_matcher. cbn [map]. rewrite tok_of_label. f_equal. f_equal.
    cbn [punct_ltok lres]. unfold tok_of. cbn [fst snd]. rewrite mop_tok_not_string. reflexivity.
  Qed.

  Lemma tok_of_matchers ms : map (fun t => tok_of (lres t)) (matchers_ltoks ms) = print_matchers anch re_names kw_cls ms.
  Proof.
    induction ms as [|m t IH]; [reflexivity|]. destruct t as [|m2 t'].
    - cbn [matchers_ltoks print_matchers]. apply tok_of_matcher.
    - change (matchers_ltoks (m :: m2 :: t')) with (matcher_ltoks m ++ punct_ltok TComma :: matchers_ltoks (m2 :: t')).
      change (print_matchers anch re_names kw_cls (m :: m2 :: t')) with
        (print_matcher anch re_names kw_cls m ++ punct TComma :: print_matchers anch re_names kw_cls (m2 :: t')).
      rewrite map_app. cbn [map]. rewrite tok_of_matcher, IH. reflexivity.
  Qed.

  Lemma tok_of_selector ms : map (fun t => tok_of (lres t)) (selector_ltoks ms) = print_selector anch re_names kw_cls ms.
  Proof. unfold selector_ltoks, print_selector. cbn [map]. rewrite map_app, tok_of_matchers. reflexivity. Qed.

  (** the tokens are in the lexer fragment *)
  Lemma wf_punct_ltok t : In t [TOpenBrace; TCloseBrace; TComma; TEq; TNotEq; TRe; TNotRe] -> wf_ltok (punct_ltok t).
  Proof.
    intro H. cbn in H. repeat (destruct H as [<-|H]; [vm_compute; split; reflexivity|]). contradiction.
  Qed.

  Lemma wf_label_ltok l : is_valid_label l = true ->
    match lookup_kw l keyword_table with Some t => is_function t = false | None => True end -> wf_ltok (label_ltok l).
  Proof.
    intros Hv Hk. unfold label_ltok. destruct (lookup_kw l keyword_table) as [t|] eqn:E; cbn [wf_ltok].
    - repeat split; assumption.
    - split; assumption.
  Qed.

  Lemma wf_matcher_ltoks m : text_matcher m -> Forall wf_ltok (matcher_ltoks m).
  Proof.
    intros [Hw [Hv [Hk Hp]]]. unfold matcher_ltoks. repeat constructor.
    - apply wf_label_ltok; assumption.
    - apply wf_punct_ltok. destruct (m_op m); cbn; tauto.
    - exact Hp.
  Qed.

  Lemma wf_matchers_ltoks ms : Forall text_matcher ms -> Forall wf_ltok (matchers_ltoks ms).
  Proof.
    induction ms as [|m t IH]; intro H; [constructor|]. inversion H as [|? ? Hm Ht]; subst. destruct t as [|m2 t'].
    - apply wf_matcher_ltoks; exact Hm.
    - change (matchers_ltoks (m :: m2 :: t')) with (matcher_ltoks m ++ punct_ltok TComma :: matchers_ltoks (m2 :: t')).
      apply Forall_app. split; [apply wf_matcher_ltoks; exact Hm|]. constructor; [apply wf_punct_ltok; cbn; tauto|apply IH; exact Ht].
  Qed.

  Lemma wf_selector_ltoks ms : Forall text_matcher ms -> Forall wf_ltok (selector_ltoks ms).
  Proof.
    intro H. unfold selector_ltoks. constructor; [apply wf_punct_ltok; cbn; tauto|].
    apply Forall_app. split; [apply wf_matchers_ltoks; exact H|]. constructor; [apply wf_punct_ltok; cbn; tauto|constructor].
  Qed.

  Lemma wf_items l toks : map fst l = toks -> Forall wf_ltok toks -> Forall (fun x => all_space (snd x)) l -> Forall wf_item l.
  Proof.
    revert toks. induction l as [|[t ws] r IH]; intros toks E Hw Hs; [constructor|].
    cbn in E. subst toks. inversion Hw; subst. inversion Hs; subst. constructor; [split; assumption|]. eapply IH; [reflexivity|assumption|assumption].
  Qed.

  (** from text to matchers *)
  Theorem selector_text_lemma (ms : list matcher) (l : list (ltok * bytes)) (p r : list token) (fuel : nat) :
    map fst l = selector_ltoks ms -> Forall (fun x => all_space (snd x)) l -> Forall text_matcher ms -> (length ms < fuel)%nat ->
    exists toks, lex (layout l) = LexOk toks /\
      parse_selector fuel {| prev := p; rest := map tok_of toks ++ r |} =
        POk ms {| prev := rev (print_selector anch re_names (fun _ => TIdent) ms) ++ p; rest := r |}.
  Proof.
    intros El Hs Hm Hf.
    pose proof (wf_items l _ El (wf_selector_ltoks ms Hm) Hs) as Hwf.
    exists (map (fun x => lres (fst x)) l). split; [apply lex_layout_lemma; exact Hwf|].
    rewrite map_map. rewrite <- (map_map fst (fun t => tok_of (lres t))). rewrite El, tok_of_selector.
    apply parse_selector_print.
    - rewrite Forall_forall in *. intros m Hin. destruct (Hm m Hin) as [Hw [Hv _]]. split; [exact Hw|].
      unfold lbl_ok. rewrite kw_cls_not_string, Hv. cbn. apply orb_true_r.
    - exact Hf.
    - rewrite Forall_forall in *. intros m Hin. destruct (Hm m Hin) as [_ [Hv _]]. apply kw_cls_not_closebrace. exact Hv.
  Qed.
End LexParse.
