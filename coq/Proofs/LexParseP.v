(** C05: lexer and parser composed, from the TEXT of a query to its tree.
    Generic part: a list of parser tokens each of which can be written in the lexer fragment of LexerP (identifiers, keywords,
    function keywords followed by an opening parenthesis, operators / punctuation, interpreted strings), written one after the
    other with any non-empty white space after each, lexes back to exactly those tokens (the driver attaches the library
    results to string tokens: [tok_of]).
    Instances: the printed tokens of a stream selector (label names may be keywords that are not function names: D29) and of a
    pipeline over the stage fragment of PipelineP are such lists; composing with the parser theorems gives
    text -> matchers (selector) and text -> ELog selector stages (whole log queries through parse_tokens). *)
From LogQLV Require Import Base.Bytes Base.TimeFmt Base.FloatX Model.Tables Model.Syntax Model.Parser Model.Lexer Proofs.ParserP Proofs.PredP Proofs.PipelineP Proofs.LogRangeP Proofs.QueryP Proofs.UnwrapP Proofs.LexerP Proofs.LexerTightP.
From Coq Require Import Lia.

(** facts about the keyword table of the tree under verification (decided by computation on Model/Tables.v, which is
    regenerated from /repo on every run) *)
Lemma kw_never_string : forallb (fun kv => negb (ttype_eqb (snd kv) TString)) keyword_table = true.
Proof. vm_compute. reflexivity. Qed.
Lemma kw_never_ident : forallb (fun kv => negb (ttype_eqb (snd kv) TIdent)) keyword_table = true.
Proof. vm_compute. reflexivity. Qed.
Lemma kw_never_duration : forallb (fun kv => negb (ttype_eqb (snd kv) TDuration)) keyword_table = true.
Proof. vm_compute. reflexivity. Qed.
Lemma kw_closebrace_not_label : forallb (fun kv => negb (ttype_eqb (snd kv) TCloseBrace) || negb (is_valid_label (fst kv))) keyword_table = true.
Proof. vm_compute. reflexivity. Qed.

(** function keywords are closed by what follows them *)
Definition is_fun_ltok (t : ltok) : bool := match t with LFun _ _ => true | _ => false end.
Fixpoint funs_ok (l : list ltok) : Prop :=
  match l with
  | [] => True
  | t :: r => (if is_fun_ltok t then match r with t2 :: _ => fun_next t2 | [] => False end else True) /\ funs_ok r
  end.
Lemma fun_ok_funs l : funs_ok (map fst l) -> fun_ok l.
Proof.
  induction l as [|[t ws] r IH]; intro H; [exact I|]. cbn [map fst funs_ok] in H. destruct H as [H1 H2]. specialize (IH H2).
  destruct t; cbn [fun_ok is_fun_ltok] in *; try exact IH. split; [|exact IH]. destruct r as [|[t2 ws2] r2]; [exact H1|exact H1].
Qed.

(** [closed a]: every function keyword in [a] is followed, inside [a], by the opening parenthesis *)
Definition closed (a : list ltok) : Prop := forall b, funs_ok b -> funs_ok (a ++ b).
Lemma closed_nil : closed [].
Proof. intros b H. exact H. Qed.
Lemma closed_app a b : closed a -> closed b -> closed (a ++ b).
Proof. intros Ha Hb c Hc. rewrite <- app_assoc. apply Ha, Hb, Hc. Qed.
Lemma closed_one t : is_fun_ltok t = false -> closed [t].
Proof. intros Ht b Hb. cbn [app funs_ok]. rewrite Ht. split; [exact I|exact Hb]. Qed.
Lemma closed_cons t a : is_fun_ltok t = false -> closed a -> closed (t :: a).
Proof. intros Ht Ha. change (t :: a) with ([t] ++ a). apply closed_app; [apply closed_one; exact Ht|exact Ha]. Qed.
Lemma closed_fun ty w t2 a : fun_next t2 -> is_fun_ltok t2 = false -> closed a -> closed (LFun ty w :: t2 :: a).
Proof. intros Hn H2 Ha b Hb. cbn [app funs_ok is_fun_ltok]. split; [exact Hn|]. rewrite H2. split; [exact I|]. apply Ha, Hb. Qed.
Lemma closed_fun_app ty w a c : match a with t2 :: _ => fun_next t2 /\ is_fun_ltok t2 = false | [] => False end ->
  closed a -> closed c -> closed (LFun ty w :: a ++ c).
Proof.
  intros Ha Hca Hcc b Hb. destruct a as [|t2 gr]; [contradiction|]. destruct Ha as [Hn H2].
  assert (H : funs_ok ((t2 :: gr) ++ c ++ b)) by (apply Hca, Hcc, Hb).
  cbn [app funs_ok is_fun_ltok]. split; [exact Hn|]. rewrite <- app_assoc. exact H.
Qed.
Lemma closed_funs_ok a : closed a -> funs_ok a.
Proof. intro H. rewrite <- (app_nil_r a). apply H. exact I. Qed.

Section LexParse.
  Variable anch : bytes -> bool.
  Variable re_names : bytes -> option (list bytes).
  Variable dur : bytes -> option Z.      (* lexerql.ParseDuration on the text of a duration token (library oracle) *)
  Notation str_tok := (str_tok anch re_names).

  (** what the driver makes of a lexed token: a string token carries the results of compiling its text, a duration token the
      nanoseconds read from it *)
  Definition tok_of (p : ttype * bytes) : token :=
    if ttype_eqb (fst p) TString then str_tok (snd p)
    else if ttype_eqb (fst p) TDuration then match dur (snd p) with Some ns => dur_tok (snd p) ns | None => plain TDuration (snd p) end
    else plain (fst p) (snd p).

  (** how a parser token is written *)
  Definition ltok_of (t : token) : ltok :=
    if ttype_eqb (ty t) TString then LStr (text t)
    else if ttype_eqb (ty t) TDuration then (let '(ds, u) := span is_digit_b (text t) in LDur ds u)
    else if ttype_eqb (ty t) TIdent then LId (text t)
    else if is_valid_label (text t) then (if is_function (ty t) then LFun (ty t) (text t) else LWord (ty t) (text t))
    else LPunct (ty t) (text t).

  (** ... and when it can be: its writing is in the lexer fragment and it carries nothing but what the driver would attach *)
  Definition lexable (t : token) : Prop := wf_ltok (ltok_of t) /\ tok_of (ty t, text t) = t.

  Lemma span_app (f : byte -> bool) s : forall a b, span f s = (a, b) -> a ++ b = s.
  Proof.
    induction s as [|c t IH]; intros a b H; cbn in H; [injection H as <- <-; reflexivity|].
    destruct (f c); [|injection H as <- <-; reflexivity].
    destruct (span f t) as [a' r'] eqn:E. injection H as <- <-. cbn. f_equal. apply IH. reflexivity.
  Qed.

  Lemma tok_of_ltok t : lexable t -> tok_of (lres (ltok_of t)) = t.
  Proof.
    intros [_ H]. unfold ltok_of. unfold tok_of in H. cbn [fst snd] in H.
    destruct (ttype_eqb (ty t) TString) eqn:ES.
    - cbn [lres]. unfold tok_of. cbn [fst snd]. change (ttype_eqb TString TString) with true. exact H.
    - destruct (ttype_eqb (ty t) TDuration) eqn:ED.
      + destruct (span is_digit_b (text t)) as [ds u] eqn:E. cbn [lres]. rewrite (span_app _ _ _ _ E).
        unfold tok_of. cbn [fst snd]. change (ttype_eqb TDuration TString) with false. change (ttype_eqb TDuration TDuration) with true. exact H.
      + destruct (ttype_eqb (ty t) TIdent) eqn:EI.
        * cbn [lres]. unfold tok_of. cbn [fst snd]. change (ttype_eqb TIdent TString) with false. change (ttype_eqb TIdent TDuration) with false. cbv iota.
          apply ttype_eqb_ident in EI. rewrite <- EI. exact H.
        * destruct (is_valid_label (text t)); [destruct (is_function (ty t))|]; cbn [lres]; unfold tok_of; cbn [fst snd]; rewrite ES, ED; exact H.
  Qed.

  Lemma wf_fst l toks : map fst l = toks -> Forall wf_ltok toks -> Forall (fun x : ltok * bytes => wf_ltok (fst x)) l.
  Proof.
    revert toks. induction l as [|[t ws] r IH]; intros toks E Hw; [constructor|].
    cbn in E. subst toks. inversion Hw; subst. constructor; [assumption|]. eapply IH; [reflexivity|assumption].
  Qed.

  (** the generic statement: lexable tokens, written one after the other with white space wherever the boundary between two
      tokens needs it ([seps_ok]; any non-empty white space will do everywhere), lex back to themselves *)
  Theorem lex_tokens_lemma (ts : list token) (l : list (ltok * bytes)) :
    map fst l = map ltok_of ts -> seps_ok l -> Forall lexable ts -> funs_ok (map ltok_of ts) ->
    exists toks, lex (layout l) = LexOk toks /\ map tok_of toks = ts.
  Proof.
    intros El Hs Hl Hf.
    assert (Hw : Forall wf_ltok (map ltok_of ts)).
    { apply Forall_map. eapply Forall_impl; [|exact Hl]. intros t [H _]. exact H. }
    pose proof (wf_fst l _ El Hw) as Hwf.
    exists (map (fun x => lres (fst x)) l). split.
    - apply lex_layout_tight_lemma; [exact Hwf|exact Hs|]. apply fun_ok_funs. rewrite El. exact Hf.
    - rewrite map_map. rewrite <- (map_map fst (fun t => tok_of (lres t))). rewrite El. rewrite map_map.
      clear El Hw Hwf Hf Hs. induction ts as [|t r IH]; [reflexivity|]. inversion Hl; subst. cbn [map]. rewrite tok_of_ltok by assumption. f_equal. apply IH. assumption.
  Qed.

  (** * building blocks *)
  Ltac punct_lex := split; [vm_compute; repeat split; reflexivity|reflexivity].
  Ltac fl := repeat (apply Forall_cons || apply Forall_nil).

  Lemma lexable_str v : forallb printable v = true -> lexable (str_tok v).
  Proof. intro H. split; [exact H|reflexivity]. Qed.
  Lemma ltok_str v : ltok_of (str_tok v) = LStr v.
  Proof. reflexivity. Qed.

  (** a name that lexes as an identifier *)
  Definition text_name (l : bytes) : Prop := is_valid_label l = true /\ lookup_kw l keyword_table = None.
  Lemma lexable_name l : text_name l -> lexable (plain TIdent l).
  Proof. intros [Hv Hk]. split; [split; assumption|reflexivity]. Qed.
  Lemma ltok_name l : ltok_of (plain TIdent l) = LId l.
  Proof. reflexivity. Qed.

  (** the token type the lexer gives a label name *)
  Definition kw_cls (l : bytes) : ttype := match lookup_kw l keyword_table with Some t => t | None => TIdent end.
  (** a label name of a selector: a valid name; when it is a keyword, not a function keyword *)
  Definition text_label (l : bytes) : Prop :=
    is_valid_label l = true /\ match lookup_kw l keyword_table with Some t => is_function t = false | None => True end.

  Lemma kw_cls_not_string l : ttype_eqb (kw_cls l) TString = false.
  Proof.
    unfold kw_cls. destruct (lookup_kw l keyword_table) as [t|] eqn:E; [|reflexivity].
    apply lookup_in in E. pose proof kw_never_string as H. rewrite forallb_forall in H. specialize (H _ E). cbn in H.
    destruct (ttype_eqb t TString); [discriminate|reflexivity].
  Qed.
  Lemma kw_cls_not_closebrace l : is_valid_label l = true -> ttype_eqb (kw_cls l) TCloseBrace = false.
  Proof.
    intro Hv. unfold kw_cls. destruct (lookup_kw l keyword_table) as [t|] eqn:E; [|reflexivity].
    apply lookup_in in E. pose proof kw_closebrace_not_label as H. rewrite forallb_forall in H. specialize (H _ E). cbn in H.
    rewrite Hv in H. cbn in H. rewrite orb_false_r in H. destruct (ttype_eqb t TCloseBrace); [discriminate|reflexivity].
  Qed.

  Lemma kw_cls_not_duration l : ttype_eqb (kw_cls l) TDuration = false.
  Proof.
    unfold kw_cls. destruct (lookup_kw l keyword_table) as [t|] eqn:E; [|reflexivity].
    apply lookup_in in E. pose proof kw_never_duration as H. rewrite forallb_forall in H. specialize (H _ E). cbn in H.
    destruct (ttype_eqb t TDuration); [discriminate|reflexivity].
  Qed.

  Lemma label_tok l : text_label l -> lexable (plain (kw_cls l) l) /\ is_fun_ltok (ltok_of (plain (kw_cls l) l)) = false.
  Proof.
    intros [Hv Hk]. pose proof (kw_cls_not_string l) as HS. pose proof (kw_cls_not_duration l) as HD.
    unfold lexable, ltok_of, tok_of. cbn [ty text fst snd plain]. rewrite HS, HD.
    unfold kw_cls in *. destruct (lookup_kw l keyword_table) as [t|] eqn:E.
    - assert (HI : ttype_eqb t TIdent = false).
      { pose proof (lookup_in _ _ _ E) as Hin. pose proof kw_never_ident as H. rewrite forallb_forall in H. specialize (H _ Hin). cbn in H.
        destruct (ttype_eqb t TIdent); [discriminate|reflexivity]. }
      rewrite HI, Hv, Hk. cbn [wf_ltok is_fun_ltok]. repeat split; assumption.
    - change (ttype_eqb TIdent TIdent) with true. cbn [wf_ltok is_fun_ltok]. repeat split; assumption.
  Qed.

  (** * stream selectors *)
  Definition text_matcher (m : matcher) : Prop :=
    wf_matcher anch m /\ text_label (m_label m) /\ forallb printable (m_value m) = true.

  Lemma mop_lex o : lexable (punct (mop_tok o)) /\ is_fun_ltok (ltok_of (punct (mop_tok o))) = false.
  Proof. destruct o; split; try punct_lex; reflexivity. Qed.

  Lemma matcher_toks m : text_matcher m ->
    Forall lexable (print_matcher anch re_names kw_cls m) /\ closed (map ltok_of (print_matcher anch re_names kw_cls m)).
  Proof.
    intros [_ [Hl Hp]]. destruct (label_tok _ Hl) as [L1 L2]. destruct (mop_lex (m_op m)) as [O1 O2]. unfold print_matcher. split.
    - fl; [exact L1|exact O1|apply lexable_str; exact Hp].
    - cbn [map]. apply closed_cons; [exact L2|]. apply closed_cons; [exact O2|]. apply closed_one. reflexivity.
  Qed.

  Lemma comma_lex : lexable (punct TComma). Proof. punct_lex. Qed.

  Lemma matchers_toks ms : Forall text_matcher ms ->
    Forall lexable (print_matchers anch re_names kw_cls ms) /\ closed (map ltok_of (print_matchers anch re_names kw_cls ms)).
  Proof.
    induction ms as [|m t IH]; intro H; [split; [constructor|apply closed_nil]|]. inversion H as [|? ? Hm Ht]; subst. destruct t as [|m2 t'].
    - cbn [print_matchers]. apply matcher_toks; exact Hm.
    - change (print_matchers anch re_names kw_cls (m :: m2 :: t')) with
        (print_matcher anch re_names kw_cls m ++ punct TComma :: print_matchers anch re_names kw_cls (m2 :: t')).
      destruct (matcher_toks m Hm) as [A1 A2]. destruct (IH Ht) as [B1 B2]. split.
      + apply Forall_app. split; [exact A1|]. constructor; [exact comma_lex|exact B1].
      + rewrite map_app. apply closed_app; [exact A2|]. cbn [map]. apply closed_cons; [reflexivity|exact B2].
  Qed.

  Lemma selector_toks ms : Forall text_matcher ms ->
    Forall lexable (print_selector anch re_names kw_cls ms) /\ closed (map ltok_of (print_selector anch re_names kw_cls ms)).
  Proof.
    intro H. destruct (matchers_toks ms H) as [A1 A2]. unfold print_selector. split.
    - constructor; [punct_lex|]. apply Forall_app. split; [exact A1|]. fl. punct_lex.
    - cbn [map]. apply closed_cons; [reflexivity|]. rewrite map_app. apply closed_app; [exact A2|]. apply closed_one. reflexivity.
  Qed.

  Lemma text_matchers_wf ms : Forall text_matcher ms ->
    Forall (wf_lmatcher anch kw_cls) ms /\ Forall (fun m => ttype_eqb (kw_cls (m_label m)) TCloseBrace = false) ms.
  Proof.
    intro H. split; (eapply Forall_impl; [|exact H]); intros m [Hw [[Hv _] _]].
    - split; [exact Hw|]. unfold lbl_ok. rewrite kw_cls_not_string, Hv. cbn. apply orb_true_r.
    - apply kw_cls_not_closebrace. exact Hv.
  Qed.

  (** from the text of a selector to its matchers *)
  Theorem selector_text_lemma (ms : list matcher) (l : list (ltok * bytes)) (p r : list token) (fuel : nat) :
    map fst l = map ltok_of (print_selector anch re_names kw_cls ms) -> seps_ok l ->
    Forall text_matcher ms -> (length ms < fuel)%nat ->
    exists toks, lex (layout l) = LexOk toks /\
      parse_selector fuel {| prev := p; rest := map tok_of toks ++ r |} =
        POk ms {| prev := rev (print_selector anch re_names (fun _ => TIdent) ms) ++ p; rest := r |}.
  Proof.
    intros El Hs Hm Hf. destruct (selector_toks ms Hm) as [A1 A2].
    destruct (lex_tokens_lemma _ l El Hs A1 (closed_funs_ok _ A2)) as [toks [HL HT]].
    exists toks. split; [exact HL|]. rewrite HT. destruct (text_matchers_wf ms Hm) as [W1 W2].
    apply parse_selector_print; assumption.
  Qed.

  (** * pipelines over the stage fragment *)
  Definition text_names (ls : list bytes) : Prop := Forall text_name ls.
  Definition text_pairs_str (ts : list (bytes * bytes)) : Prop := Forall (fun p => text_name (fst p) /\ forallb printable (snd p) = true) ts.
  Definition text_pairs_name (rs : list (bytes * bytes)) : Prop := Forall (fun p => text_name (fst p) /\ text_name (snd p)) rs.

  (** label-filter predicates that can be written in the lexer fragment: string matchers and ip() comparisons, combined freely
      (numeric literals are outside the fragment) *)
  Fixpoint text_pred (p : pred) : Prop :=
    match p with
    | PMatch m => text_name (m_label m) /\ forallb printable (m_value m) = true
    | PIP l _ pat => text_name l /\ forallb printable pat = true
    | PParen a => text_pred a
    | PBin a _ b => text_pred a /\ text_pred b
    | _ => False
    end.

  Definition text_stage (s : stage) : Prop :=
    match s with
    | SLine _ v _ | SPattern v | SLineFormat v => forallb printable v = true
    | SUnpack | SDecolorize => True
    | SDrop ls _ | SKeep ls _ | SDistinct ls | SJson ls _ | SLogfmt ls _ => text_names ls
    | SLabelFormat rs ts => text_pairs_name rs /\ text_pairs_str ts
    | SLabelFilter p => text_pred p
    | _ => False
    end.

  Lemma names_toks ls : text_names ls -> Forall lexable (print_names ls) /\ closed (map ltok_of (print_names ls)).
  Proof.
    induction ls as [|l t IH]; intro H; [split; [constructor|apply closed_nil]|]. inversion H as [|? ? Hl Ht]; subst. destruct t as [|l2 t'].
    - cbn [print_names map]. split; [fl; apply lexable_name; exact Hl|apply closed_one; reflexivity].
    - change (print_names (l :: l2 :: t')) with (plain TIdent l :: punct TComma :: print_names (l2 :: t')). destruct (IH Ht) as [B1 B2]. split.
      + constructor; [apply lexable_name; exact Hl|]. constructor; [exact comma_lex|exact B1].
      + cbn [map]. apply closed_cons; [reflexivity|]. apply closed_cons; [reflexivity|exact B2].
  Qed.

  Lemma tmpls_toks ts : text_pairs_str ts -> Forall lexable (print_tmpls anch re_names ts) /\ closed (map ltok_of (print_tmpls anch re_names ts)).
  Proof.
    induction ts as [|[dst tm] t IH]; intro H; [split; [constructor|apply closed_nil]|]. inversion H as [|? ? [Hd Hp] Ht]; subst. cbn [fst snd] in *.
    destruct (IH Ht) as [B1 B2]. cbn [print_tmpls]. destruct t as [|x t'].
    - split; [fl; [apply lexable_name; exact Hd|punct_lex|apply lexable_str; exact Hp]|].
      cbn [map]. apply closed_cons; [reflexivity|]. apply closed_cons; [reflexivity|]. apply closed_one. reflexivity.
    - split.
      + constructor; [apply lexable_name; exact Hd|]. constructor; [punct_lex|]. constructor; [apply lexable_str; exact Hp|]. constructor; [exact comma_lex|exact B1].
      + cbn [map]. apply closed_cons; [reflexivity|]. apply closed_cons; [reflexivity|]. apply closed_cons; [reflexivity|]. apply closed_cons; [reflexivity|exact B2].
  Qed.

  Lemma lf_toks rs ts : text_pairs_name rs -> text_pairs_str ts ->
    Forall lexable (print_lf anch re_names rs ts) /\ closed (map ltok_of (print_lf anch re_names rs ts)).
  Proof.
    intros Hr Ht. induction rs as [|[src dst] r IH]; [cbn [print_lf]; apply tmpls_toks; exact Ht|].
    inversion Hr as [|? ? [Hs Hd] Hr']; subst. cbn [fst snd] in *. destruct (IH Hr') as [B1 B2]. cbn [print_lf].
    assert (Hhead : Forall lexable [plain TIdent dst; punct TEq; plain TIdent src]).
    { fl; [apply lexable_name; exact Hd|punct_lex|apply lexable_name; exact Hs]. }
    destruct r as [|x r']; [destruct ts as [|y ts']|].
    - split; [exact Hhead|]. cbn [map]. apply closed_cons; [reflexivity|]. apply closed_cons; [reflexivity|]. apply closed_one. reflexivity.
    - split.
      + apply (Forall_app _ [_; _; _] _). split; [exact Hhead|]. constructor; [exact comma_lex|exact B1].
      + cbn [map]. apply closed_cons; [reflexivity|]. apply closed_cons; [reflexivity|]. apply closed_cons; [reflexivity|]. apply closed_cons; [reflexivity|exact B2].
    - split.
      + apply (Forall_app _ [_; _; _] _). split; [exact Hhead|]. constructor; [exact comma_lex|exact B1].
      + cbn [map]. apply closed_cons; [reflexivity|]. apply closed_cons; [reflexivity|]. apply closed_cons; [reflexivity|]. apply closed_cons; [reflexivity|exact B2].
  Qed.

  Lemma lineop_lex o : lexable (punct (lineop_tok o)) /\ is_fun_ltok (ltok_of (punct (lineop_tok o))) = false.
  Proof. destruct o; split; try punct_lex; reflexivity. Qed.

  Lemma kw_names_toks (k : ttype) ls : lexable (punct k) -> is_fun_ltok (ltok_of (punct k)) = false -> text_names ls ->
    Forall lexable (punct TPipe :: punct k :: print_names ls) /\ closed (map ltok_of (punct TPipe :: punct k :: print_names ls)).
  Proof.
    intros Hk Hf Hn. destruct (names_toks ls Hn) as [B1 B2]. split.
    - constructor; [punct_lex|]. constructor; [exact Hk|exact B1].
    - cbn [map]. apply closed_cons; [reflexivity|]. apply closed_cons; [exact Hf|exact B2].
  Qed.

  Notation print_pred0 := (print_pred anch re_names (fun _ => []) (fun _ => []) (fun _ => [])).

  Lemma pred_toks p : wf_pred anch p -> text_pred p -> Forall lexable (print_pred0 p) /\ closed (map ltok_of (print_pred0 p)).
  Proof.
    induction p as [m|l o v|l o ns|l o n|l o pat|a IHa o b IHb|a IHa]; cbn [wf_pred text_pred print_pred]; intros Hw Ht; try contradiction.
    - destruct Ht as [Hl Hv]. destruct (mop_lex (m_op m)) as [O1 O2]. split.
      + fl; [apply lexable_name; exact Hl|exact O1|apply lexable_str; exact Hv].
      + cbn [map]. apply closed_cons; [reflexivity|]. apply closed_cons; [exact O2|]. apply closed_one. reflexivity.
    - destruct Ht as [Hl Hv]. split.
      + fl; [apply lexable_name; exact Hl|destruct Hw as [-> | ->]; punct_lex|punct_lex|punct_lex|apply lexable_str; exact Hv|punct_lex].
      + cbn [map]. apply closed_cons; [reflexivity|]. apply closed_cons; [destruct Hw as [-> | ->]; reflexivity|].
        change (ltok_of (punct TIP)) with (LFun TIP (spelling TIP)). change (ltok_of (punct TOpenParen)) with open_paren.
        apply closed_fun; [reflexivity|reflexivity|]. apply closed_cons; [reflexivity|]. apply closed_one. reflexivity.
    - destruct Ht as [Hta Htb].
      assert (Hab : wf_pred anch a /\ wf_pred anch b /\ (o = OpAnd \/ o = OpOr)) by (destruct o; try contradiction; repeat split; try tauto).
      destruct Hab as [Hwa [Hwb Ho]]. destruct (IHa Hwa Hta) as [A1 A2]. destruct (IHb Hwb Htb) as [B1 B2]. split.
      + apply Forall_app. split; [exact A1|]. constructor; [destruct Ho as [-> | ->]; punct_lex|exact B1].
      + rewrite map_app. apply closed_app; [exact A2|]. cbn [map]. apply closed_cons; [destruct Ho as [-> | ->]; reflexivity|exact B2].
    - destruct (IHa Hw Ht) as [A1 A2]. split.
      + constructor; [punct_lex|]. apply Forall_app. split; [exact A1|]. fl. punct_lex.
      + cbn [map]. apply closed_cons; [reflexivity|]. rewrite map_app. apply closed_app; [exact A2|]. apply closed_one. reflexivity.
  Qed.

  Lemma stage_toks s : simple_stage anch re_names s -> text_stage s ->
    Forall lexable (print_stage anch re_names s) /\ closed (map ltok_of (print_stage anch re_names s)).
  Proof.
    intros Hsimple Ht. destruct s as [o v ip|ls es|ls es|src mp| |p| |p| |pr|rs ts|ls ms|ls ms|ls]; cbn [text_stage simple_stage print_stage] in *; try contradiction.
    all: try (destruct ms; [|contradiction]). all: try (destruct es; [|contradiction]).
    - destruct (lineop_lex o) as [O1 O2]. destruct ip.
      + split; [fl; [exact O1|punct_lex|punct_lex|apply lexable_str; exact Ht|punct_lex]|].
        cbn [map]. apply closed_cons; [exact O2|]. change (ltok_of (punct TIP)) with (LFun TIP (spelling TIP)).
        change (ltok_of (punct TOpenParen)) with open_paren. apply closed_fun; [reflexivity|reflexivity|]. apply closed_cons; [reflexivity|]. apply closed_one. reflexivity.
      + split; [fl; [exact O1|apply lexable_str; exact Ht]|]. cbn [map]. apply closed_cons; [exact O2|]. apply closed_one. reflexivity.
    - apply kw_names_toks; [punct_lex|reflexivity|exact Ht].
    - apply kw_names_toks; [punct_lex|reflexivity|exact Ht].
    - split; [fl; [punct_lex|punct_lex|apply lexable_str; exact Ht]|]. cbn [map]. apply closed_cons; [reflexivity|]. apply closed_cons; [reflexivity|]. apply closed_one. reflexivity.
    - split; [fl; punct_lex|]. cbn [map]. apply closed_cons; [reflexivity|]. apply closed_one. reflexivity.
    - split; [fl; [punct_lex|punct_lex|apply lexable_str; exact Ht]|]. cbn [map]. apply closed_cons; [reflexivity|]. apply closed_cons; [reflexivity|]. apply closed_one. reflexivity.
    - split; [fl; punct_lex|]. cbn [map]. apply closed_cons; [reflexivity|]. apply closed_one. reflexivity.
    - destruct (pred_toks pr Hsimple Ht) as [B1 B2]. split.
      + constructor; [punct_lex|exact B1].
      + cbn [map]. apply closed_cons; [reflexivity|exact B2].
    - destruct Ht as [Hr Hts]. destruct (lf_toks rs ts Hr Hts) as [B1 B2]. split.
      + constructor; [punct_lex|]. constructor; [punct_lex|exact B1].
      + cbn [map]. apply closed_cons; [reflexivity|]. apply closed_cons; [reflexivity|exact B2].
    - apply kw_names_toks; [punct_lex|reflexivity|exact Ht].
    - apply kw_names_toks; [punct_lex|reflexivity|exact Ht].
    - apply kw_names_toks; [punct_lex|reflexivity|exact Ht].
  Qed.

  Lemma stages_toks sts : Forall (simple_stage anch re_names) sts -> Forall text_stage sts ->
    Forall lexable (print_stages anch re_names sts) /\ closed (map ltok_of (print_stages anch re_names sts)).
  Proof.
    induction sts as [|s t IH]; intros Hs Ht; [split; [constructor|apply closed_nil]|].
    inversion Hs; subst. inversion Ht; subst. destruct (stage_toks s) as [A1 A2]; [assumption|assumption|]. destruct IH as [B1 B2]; [assumption|assumption|].
    change (print_stages anch re_names (s :: t)) with (print_stage anch re_names s ++ print_stages anch re_names t). split.
    - apply Forall_app. split; assumption.
    - rewrite map_app. apply closed_app; assumption.
  Qed.

  Lemma chain_simple sts : forall r, chain_ok anch re_names sts r -> Forall (simple_stage anch re_names) sts.
  Proof. induction sts as [|s t IH]; intros r H; [constructor|]. destruct H as [H1 [_ H3]]. constructor; [exact H1|apply (IH r); exact H3]. Qed.

  (** from the text of a whole log query to its tree, through parse_tokens (logql.Parse after tokenizing) *)
  Theorem log_query_text_lemma (sel : list matcher) (sts : list stage) (l : list (ltok * bytes)) :
    map fst l = map ltok_of (print_selector anch re_names kw_cls sel ++ print_stages anch re_names sts) ->
    seps_ok l ->
    Forall text_matcher sel -> Forall text_stage sts -> chain_ok anch re_names sts [] ->
    exists toks, lex (layout l) = LexOk toks /\ parse_tokens (map tok_of toks) = Parsed (ELog sel sts).
  Proof.
    intros El Hs Hm Ht Hc. destruct (selector_toks sel Hm) as [A1 A2]. destruct (stages_toks sts (chain_simple _ _ Hc) Ht) as [B1 B2].
    assert (HL : Forall lexable (print_selector anch re_names kw_cls sel ++ print_stages anch re_names sts)) by (apply Forall_app; split; assumption).
    assert (HF : funs_ok (map ltok_of (print_selector anch re_names kw_cls sel ++ print_stages anch re_names sts))).
    { rewrite map_app. apply closed_funs_ok. apply closed_app; assumption. }
    destruct (lex_tokens_lemma _ l El Hs HL HF) as [toks [H1 H2]]. exists toks. split; [exact H1|]. rewrite H2.
    destruct (text_matchers_wf sel Hm) as [W1 W2]. apply log_query_parse_lemma; assumption.
  Qed.
  (** * range aggregations and grouped vector aggregations: from text to tree *)
  (** a duration as it can be written in the lexer fragment (digits and one unit, no leading zero, at most nine digits), with the
      nanoseconds the library reads from it *)
  Definition text_dur (txt : bytes) (ns : Z) : Prop :=
    dur txt = Some ns /\ (let '(ds, u) := span is_digit_b txt in wf_ltok (LDur ds u)).

  Lemma dur_tok_lex txt ns : text_dur txt ns -> lexable (dur_tok txt ns) /\ is_fun_ltok (ltok_of (dur_tok txt ns)) = false.
  Proof.
    intros [Hd Hw]. unfold lexable, ltok_of, tok_of. cbn [ty text dur_tok fst snd].
    change (ttype_eqb TDuration TString) with false. change (ttype_eqb TDuration TDuration) with true. cbv iota.
    destruct (span is_digit_b txt) as [ds u]. rewrite Hd. split; [split; [exact Hw|reflexivity]|reflexivity].
  Qed.

  Definition text_offset (off : option (bytes * Z)) : Prop := match off with Some (ot, on) => text_dur ot on | None => True end.

  Lemma range_toks rtxt rns off : text_dur rtxt rns -> text_offset off ->
    Forall lexable (print_range rtxt rns off) /\ closed (map ltok_of (print_range rtxt rns off)).
  Proof.
    intros Hr Ho. destruct (dur_tok_lex _ _ Hr) as [R1 R2]. unfold print_range. destruct off as [[ot on]|]; cbn [text_offset] in Ho.
    - destruct (dur_tok_lex _ _ Ho) as [O1 O2]. split.
      + fl; [punct_lex|exact R1|punct_lex|punct_lex|exact O1].
      + cbn [map]. apply closed_cons; [reflexivity|]. apply closed_cons; [exact R2|]. apply closed_cons; [reflexivity|]. apply closed_cons; [reflexivity|]. apply closed_one. exact O2.
    - split.
      + fl; [punct_lex|exact R1|punct_lex].
      + cbn [map]. apply closed_cons; [reflexivity|]. apply closed_cons; [exact R2|]. apply closed_one. reflexivity.
  Qed.

  Lemma logrange_toks sel sts rtxt rns off r : Forall text_matcher sel -> Forall text_stage sts -> chain_ok anch re_names sts r ->
    text_dur rtxt rns -> text_offset off ->
    Forall lexable (print_logrange anch re_names kw_cls sel sts rtxt rns off) /\ closed (map ltok_of (print_logrange anch re_names kw_cls sel sts rtxt rns off)).
  Proof.
    intros Hm Ht Hc Hr Ho. destruct (selector_toks sel Hm) as [A1 A2]. destruct (stages_toks sts (chain_simple _ _ Hc) Ht) as [B1 B2].
    destruct (range_toks rtxt rns off Hr Ho) as [C1 C2]. unfold print_logrange. split.
    - apply Forall_app. split; [exact A1|]. apply Forall_app. split; assumption.
    - rewrite !map_app. apply closed_app; [exact A2|]. apply closed_app; assumption.
  Qed.

  Lemma rangeop_lex o : lexable (punct (rangeop_tok o)) /\ exists w, ltok_of (punct (rangeop_tok o)) = LFun (rangeop_tok o) w.
  Proof. destruct o; (split; [punct_lex|eexists; reflexivity]). Qed.

  Lemma range_agg_toks o sel sts rtxt rns off r : Forall text_matcher sel -> Forall text_stage sts -> chain_ok anch re_names sts r ->
    text_dur rtxt rns -> text_offset off ->
    Forall lexable (print_range_agg anch re_names kw_cls o sel sts rtxt rns off) /\ closed (map ltok_of (print_range_agg anch re_names kw_cls o sel sts rtxt rns off)).
  Proof.
    intros Hm Ht Hc Hr Ho. destruct (logrange_toks sel sts rtxt rns off r Hm Ht Hc Hr Ho) as [A1 A2].
    destruct (rangeop_lex o) as [O1 [w O2]]. unfold print_range_agg. split.
    - constructor; [exact O1|]. constructor; [punct_lex|]. apply Forall_app. split; [exact A1|]. fl. punct_lex.
    - cbn [map]. rewrite O2. change (ltok_of (punct TOpenParen)) with open_paren. apply closed_fun; [reflexivity|reflexivity|].
      rewrite map_app. apply closed_app; [exact A2|]. apply closed_one. reflexivity.
  Qed.

  Theorem range_agg_text_lemma (o : rangeop) (sel : list matcher) (sts : list stage) (rtxt : bytes) (rns : Z) (off : option (bytes * Z)) (l : list (ltok * bytes)) :
    map fst l = map ltok_of (print_range_agg anch re_names kw_cls o sel sts rtxt rns off) ->
    seps_ok l ->
    range_validate o None None false = true ->
    Forall text_matcher sel -> Forall text_stage sts -> chain_ok anch re_names sts (print_range rtxt rns off ++ [punct TCloseParen]) ->
    text_dur rtxt rns -> text_offset off ->
    exists toks, lex (layout l) = LexOk toks /\
      parse_tokens (map tok_of toks) =
        Parsed (ERange o {| r_sel := sel; r_range := rns; r_pipe := sts; r_unwrap := None; r_offset := option_map snd off |} None None).
  Proof.
    intros El Hs Hv Hm Ht Hc Hr Ho. destruct (range_agg_toks o sel sts rtxt rns off _ Hm Ht Hc Hr Ho) as [A1 A2].
    destruct (lex_tokens_lemma _ l El Hs A1 (closed_funs_ok _ A2)) as [toks [H1 H2]]. exists toks. split; [exact H1|]. rewrite H2.
    destruct (text_matchers_wf sel Hm) as [W1 W2]. apply range_agg_parse_lemma; assumption.
  Qed.

  Lemma vecop_lex v : lexable (punct (vecop_tok v)) /\ exists w, ltok_of (punct (vecop_tok v)) = LFun (vecop_tok v) w.
  Proof. destruct v; (split; [punct_lex|eexists; reflexivity]). Qed.

  Lemma grouping_toks g : text_names (g_labels g) ->
    Forall lexable (print_grouping g) /\ closed (map ltok_of (print_grouping g)) /\
    match map ltok_of (print_grouping g) with t2 :: _ => fun_next t2 /\ is_fun_ltok t2 = false | [] => False end.
  Proof.
    intro Hn. destruct (names_toks _ Hn) as [N1 N2]. unfold print_grouping, print_labels. split; [|split].
    - constructor; [destruct (g_without g); punct_lex|]. constructor; [punct_lex|]. apply Forall_app. split; [exact N1|]. fl. punct_lex.
    - cbn [map]. apply closed_cons; [destruct (g_without g); reflexivity|]. apply closed_cons; [reflexivity|]. rewrite map_app. apply closed_app; [exact N2|]. apply closed_one. reflexivity.
    - cbn [map]. destruct (g_without g); split; reflexivity.
  Qed.

  Theorem vec_agg_text_lemma (v : vectorop) (g : grouping) (o : rangeop) (sel : list matcher) (sts : list stage) (rtxt : bytes) (rns : Z)
      (off : option (bytes * Z)) (l : list (ltok * bytes)) :
    map fst l = map ltok_of (print_vec_agg anch re_names kw_cls v g o sel sts rtxt rns off) ->
    seps_ok l ->
    vector_validate v None (Some g) = true -> range_validate o None None false = true -> text_names (g_labels g) ->
    Forall text_matcher sel -> Forall text_stage sts -> chain_ok anch re_names sts (print_range rtxt rns off ++ [punct TCloseParen; punct TCloseParen]) ->
    text_dur rtxt rns -> text_offset off ->
    exists toks, lex (layout l) = LexOk toks /\
      parse_tokens (map tok_of toks) = Parsed (EVecAgg v (range_expr o sel sts rns off) None (Some g)).
  Proof.
    intros El Hs Hvv Hv Hg Hm Ht Hc Hr Ho.
    destruct (range_agg_toks o sel sts rtxt rns off _ Hm Ht Hc Hr Ho) as [A1 A2].
    destruct (grouping_toks g Hg) as [G1 [G2 G3]]. destruct (vecop_lex v) as [V1 [w V2]].
    assert (HL : Forall lexable (print_vec_agg anch re_names kw_cls v g o sel sts rtxt rns off)).
    { unfold print_vec_agg. constructor; [exact V1|]. apply Forall_app. split; [exact G1|]. constructor; [punct_lex|]. apply Forall_app. split; [exact A1|]. fl. punct_lex. }
    assert (HF : closed (map ltok_of (print_vec_agg anch re_names kw_cls v g o sel sts rtxt rns off))).
    { unfold print_vec_agg. cbn [map]. rewrite V2. rewrite map_app. apply closed_fun_app; [exact G3|exact G2|].
      cbn [map]. apply closed_cons; [reflexivity|]. rewrite map_app. apply closed_app; [exact A2|]. apply closed_one. reflexivity. }
    destruct (lex_tokens_lemma _ l El Hs HL (closed_funs_ok _ HF)) as [toks [H1 H2]]. exists toks. split; [exact H1|]. rewrite H2.
    destruct (text_matchers_wf sel Hm) as [W1 W2]. apply vec_agg_parse_lemma; assumption.
  Qed.
  (** * unwrapped range aggregations: from text to tree *)
  Lemma chain_mid_simple sts : forall r, chain_mid anch re_names sts r -> Forall (simple_stage anch re_names) sts.
  Proof. induction sts as [|s t IH]; intros r H; [constructor|]. destruct H as [H1 [_ H3]]. constructor; [exact H1|apply (IH r); exact H3]. Qed.

  Lemma unwrap_toks cv l : wf_unwrap cv -> text_name l ->
    Forall lexable (print_unwrap cv l) /\ closed (map ltok_of (print_unwrap cv l)).
  Proof.
    intros Hw Hl. unfold print_unwrap. destruct (conv_tok cv) as [k|] eqn:E.
    - assert (Hk : (k = TBytesConv /\ cv = ["b"; "y"; "t"; "e"; "s"]%byte) \/ (k = TDurationConv /\ cv = ["d"; "u"; "r"; "a"; "t"; "i"; "o"; "n"]%byte) \/
                   (k = TDurationSecondsConv /\ cv = ["d"; "u"; "r"; "a"; "t"; "i"; "o"; "n"; "_"; "s"; "e"; "c"; "o"; "n"; "d"; "s"]%byte)).
      { unfold conv_tok in E.
        destruct (bytes_eqb cv ["b"; "y"; "t"; "e"; "s"]%byte) eqn:E1; [apply bytes_eqb_eq in E1; inversion E; auto|].
        destruct (bytes_eqb cv ["d"; "u"; "r"; "a"; "t"; "i"; "o"; "n"]%byte) eqn:E2; [apply bytes_eqb_eq in E2; inversion E; auto|].
        destruct (bytes_eqb cv ["d"; "u"; "r"; "a"; "t"; "i"; "o"; "n"; "_"; "s"; "e"; "c"; "o"; "n"; "d"; "s"]%byte) eqn:E3; [apply bytes_eqb_eq in E3; inversion E; auto|discriminate]. }
      split.
      + fl; [punct_lex| |punct_lex|apply lexable_name; exact Hl|punct_lex].
        destruct Hk as [[-> ->] | [[-> ->] | [-> ->]]]; punct_lex.
      + cbn [map]. apply closed_cons; [reflexivity|].
        assert (Hf : exists w, ltok_of (plain k cv) = LFun k w) by (destruct Hk as [[-> ->] | [[-> ->] | [-> ->]]]; eexists; reflexivity).
        destruct Hf as [w ->]. change (ltok_of (punct TOpenParen)) with open_paren. apply closed_fun; [reflexivity|reflexivity|].
        apply closed_cons; [reflexivity|]. apply closed_one. reflexivity.
    - split; [fl; [punct_lex|apply lexable_name; exact Hl]|]. cbn [map]. apply closed_cons; [reflexivity|]. apply closed_one. reflexivity.
  Qed.

  Lemma opt_grouping_toks g : match g with Some g0 => text_names (g_labels g0) | None => True end ->
    Forall lexable (print_opt_grouping g) /\ closed (map ltok_of (print_opt_grouping g)).
  Proof.
    destruct g as [g0|]; cbn [print_opt_grouping]; intro H; [|split; [constructor|apply closed_nil]].
    destruct (grouping_toks g0 H) as [G1 [G2 _]]. split; assumption.
  Qed.

  Theorem unwrap_agg_text_lemma (o : rangeop) (sel : list matcher) (sts : list stage) (cv lb rtxt : bytes) (rns : Z) (off : option (bytes * Z))
      (g : option grouping) (l : list (ltok * bytes)) :
    map fst l = map ltok_of (print_unwrap_agg anch re_names kw_cls o sel sts cv lb rtxt rns off g) ->
    seps_ok l ->
    range_validate o None g true = true ->
    Forall text_matcher sel -> Forall text_stage sts ->
    chain_mid anch re_names sts (unwrap_tail cv lb rtxt rns off (punct TCloseParen :: print_opt_grouping g)) ->
    wf_unwrap cv -> text_name lb -> text_dur rtxt rns -> text_offset off ->
    match g with Some g0 => text_names (g_labels g0) | None => True end ->
    exists toks, lex (layout l) = LexOk toks /\
      parse_tokens (map tok_of toks) = Parsed (ERange o (unwrap_lr sel sts cv lb rns off) None g).
  Proof.
    intros El Hs Hv Hm Ht Hc Hw Hlb Hr Ho Hg.
    destruct (selector_toks sel Hm) as [A1 A2]. destruct (stages_toks sts (chain_mid_simple _ _ Hc) Ht) as [B1 B2].
    destruct (unwrap_toks cv lb Hw Hlb) as [U1 U2]. destruct (range_toks rtxt rns off Hr Ho) as [R1 R2].
    destruct (opt_grouping_toks g Hg) as [G1 G2]. destruct (rangeop_lex o) as [O1 [w O2]].
    assert (HL : Forall lexable (print_unwrap_agg anch re_names kw_cls o sel sts cv lb rtxt rns off g)).
    { unfold print_unwrap_agg, print_unwrap_range. constructor; [exact O1|]. constructor; [punct_lex|].
      apply Forall_app. split; [|constructor; [punct_lex|exact G1]].
      apply Forall_app. split; [exact A1|]. apply Forall_app. split; [exact B1|]. constructor; [punct_lex|]. apply Forall_app. split; assumption. }
    assert (HF : closed (map ltok_of (print_unwrap_agg anch re_names kw_cls o sel sts cv lb rtxt rns off g))).
    { unfold print_unwrap_agg, print_unwrap_range. cbn [map]. rewrite O2. change (ltok_of (punct TOpenParen)) with open_paren.
      apply closed_fun; [reflexivity|reflexivity|]. rewrite map_app. apply closed_app.
      - rewrite !map_app. apply closed_app; [exact A2|]. apply closed_app; [exact B2|]. cbn [map]. apply closed_cons; [reflexivity|].
        rewrite map_app. apply closed_app; assumption.
      - cbn [map]. apply closed_cons; [reflexivity|exact G2]. }
    destruct (lex_tokens_lemma _ l El Hs HL (closed_funs_ok _ HF)) as [toks [H1 H2]]. exists toks. split; [exact H1|]. rewrite H2.
    destruct (text_matchers_wf sel Hm) as [W1 W2]. apply unwrap_agg_parse_lemma; assumption.
  Qed.
End LexParse.
