(** C05: one binary operation between two range aggregations (without unwrap, modifier-free):
      rate ( {..} [5m] ) / rate ( {..} [5m] )      count_over_time ( .. ) > count_over_time ( .. )      a and b, a or b, a unless b
    for all fifteen binary operators; the tree is  EBin left op (empty modifier) right. *)
From LogQLV Require Import Base.Bytes Base.FloatX Model.Tables Model.Syntax Model.Parser Proofs.ParserP Proofs.PipelineP Proofs.LogRangeP Proofs.QueryP.
From Coq Require Import Lia.

Definition bin_tok (o : binop) : ttype :=
  match o with
  | OpOr => TOr | OpAnd => TAnd | OpUnless => TUnless | OpAdd => TAdd | OpSub => TSub | OpMul => TMul | OpDiv => TDiv | OpMod => TMod | OpPow => TPow
  | OpEq => TCmpEq | OpNotEq => TNotEq | OpGt => TGt | OpGte => TGte | OpLt => TLt | _ => TLte
  end.
(** the operators of metric expressions (=~ and !~ belong to matchers) *)
Definition metric_op (o : binop) : bool := match o with OpRe | OpNotRe => false | _ => true end.

Section BinRange.
  Variable anch : bytes -> bool.
  Variable re_names : bytes -> option (list bytes).
  Notation print_range_agg := (print_range_agg anch re_names).

  Ltac stepb := erewrite bind_POk by reflexivity; cbv beta; cbn [rest prev].

  Record operand := { a_op : rangeop; a_sel : list matcher; a_sts : list stage; a_rtxt : bytes; a_rns : Z; a_off : option (bytes * Z) }.
  Definition print_operand cls (a : operand) : list token := print_range_agg cls (a_op a) (a_sel a) (a_sts a) (a_rtxt a) (a_rns a) (a_off a).
  Definition operand_expr (a : operand) : expr := range_expr (a_op a) (a_sel a) (a_sts a) (a_rns a) (a_off a).
  Definition wf_operand cls (a : operand) (r : list token) : Prop :=
    range_validate (a_op a) None None false = true /\
    Forall (wf_lmatcher anch cls) (a_sel a) /\ Forall (fun m => ttype_eqb (cls (m_label m)) TCloseBrace = false) (a_sel a) /\
    chain_ok anch re_names (a_sts a) (print_range (a_rtxt a) (a_rns a) (a_off a) ++ punct TCloseParen :: r).

  Definition print_bin cls (op : binop) (a b : operand) : list token := print_operand cls a ++ punct (bin_tok op) :: print_operand cls b.

  Lemma bin_tok_facts op : metric_op op = true ->
    peek_binop_of (punct (bin_tok op)) = Some op /\ is_ty (punct (bin_tok op)) TBy = false /\ is_ty (punct (bin_tok op)) TWithout = false.
  Proof. destruct op; intro H; try discriminate H; repeat split; reflexivity. Qed.

  Lemma operand_head cls a : exists tl, print_operand cls a = punct (rangeop_tok (a_op a)) :: tl.
  Proof. unfold print_operand, QueryP.print_range_agg. eexists. reflexivity. Qed.

  Lemma modifier_none f p o tl : parse_modifier f {| prev := p; rest := punct (rangeop_tok o) :: tl |} = POk empty_mod {| prev := p; rest := punct (rangeop_tok o) :: tl |}.
  Proof. destruct o; reflexivity. Qed.

  Lemma operand_not_lit a : is_lit (operand_expr a) = false.
  Proof. reflexivity. Qed.

  Lemma core_binop_unfold f lhs mp s :
    parse_core (S f) (CBinOp lhs mp) s =
      (do t <- peek;
       match peek_binop_of t with
       | None => ret lhs
       | Some op =>
           if precedence op <? mp then ret lhs else
           next ;;
           do md <- parse_modifier f;
           do rhs <- parse_core f CMetric1;
           if is_logic op && is_lit lhs then fail else
           do rhs' <- parse_core f (CInner op rhs);
           if is_logic op && is_lit rhs' then fail else
           parse_core f (CBinOp (EBin lhs op md rhs') mp)
       end) s.
  Proof. reflexivity. Qed.

  Lemma core_inner_end f op rhs p : parse_core (S f) (CInner op rhs) {| prev := p; rest := [] |} = POk rhs {| prev := p; rest := [] |}.
  Proof. reflexivity. Qed.

  Theorem bin_range_parse_lemma cls op a b :
    metric_op op = true -> wf_operand cls a (punct (bin_tok op) :: print_operand cls b) -> wf_operand cls b [] ->
    parse_tokens (print_bin cls op a b) = Parsed (EBin (operand_expr a) op empty_mod (operand_expr b)).
  Proof.
    intros Hop [Hva [Hsa [Hna Hca]]] [Hvb [Hsb [Hnb Hcb]]]. unfold parse_tokens.
    set (toks := print_bin cls op a b).
    assert (Hlen : (length (a_sel a) + fuel_needed (a_sts a) + length (a_sel b) + fuel_needed (a_sts b) + 4 <= 2 * length toks)%nat).
    { unfold toks, print_bin, print_operand, QueryP.print_range_agg, print_logrange. repeat (rewrite app_length || cbn [length]).
      pose proof (print_selector_len anch re_names cls (a_sel a)). pose proof (print_selector_len anch re_names cls (a_sel b)).
      pose proof (stages_fuel anch re_names (a_sts a) _ Hca). pose proof (stages_fuel anch re_names (a_sts b) _ Hcb). lia. }
    remember (16 * length toks + 64)%nat as fuel eqn:Ef.
    do 8 (destruct fuel as [|fuel]; [lia|]).
    assert (Hf : (length (a_sel a) < fuel /\ fuel_needed (a_sts a) < fuel /\ length (a_sel b) < fuel /\ fuel_needed (a_sts b) < fuel)%nat) by lia.
    destruct Hf as [Hf1 [Hf2 [Hf3 Hf4]]].
    destruct (bin_tok_facts op Hop) as [Hpk [Hby Hwo]].
    clear Ef Hlen. subst toks.
    destruct (operand_head cls a) as [tla Ea]. destruct (operand_head cls b) as [tlb Eb].
    destruct (rangeop_tok_not (a_op a)) as [Hba Hpa].
    assert (Hhead : match print_bin cls op a b with [] => eof_tok | t :: _ => t end = punct (rangeop_tok (a_op a))) by (unfold print_bin; rewrite Ea; reflexivity).
    rewrite core_expr_metric by (rewrite Hhead; exact Hba).
    rewrite core_metric. unfold bind at 1. unfold print_bin. unfold print_operand at 1.
    (* left operand *)
    rewrite (range_agg_core anch re_names cls (a_op a) (a_sel a) (a_sts a) (a_rtxt a) (a_rns a) (a_off a) (S (S (S (S (S fuel))))) [] _ Hva Hsa Hna Hca);
      [|lia|lia|split; [exact Hby|exact Hwo]].
    (* the operator *)
    rewrite core_binop_unfold. stepb. rewrite Hpk.
    assert (Hprec : (precedence op <? 0) = false) by (destruct op; reflexivity). rewrite Hprec.
    stepb.
    rewrite Eb. erewrite bind_POk by (apply modifier_none). cbv beta. rewrite <- Eb.
    (* right operand *)
    rewrite <- (app_nil_r (print_operand cls b)). unfold print_operand at 1.
    erewrite bind_POk by (apply (range_agg_core anch re_names cls (a_op b) (a_sel b) (a_sts b) (a_rtxt b) (a_rns b) (a_off b) (S (S (S (S fuel)))) _ [] Hvb Hsb Hnb Hcb); [lia|lia|exact I]).
    cbv beta.
    change (is_lit (range_expr (a_op a) (a_sel a) (a_sts a) (a_rns a) (a_off a))) with false. rewrite andb_false_r.
    (* nothing follows *)
    erewrite bind_POk by (apply core_inner_end). cbv beta.
    change (is_lit (range_expr (a_op b) (a_sel b) (a_sts b) (a_rns b) (a_off b))) with false. rewrite andb_false_r.
    rewrite core_binop_end by exact I. reflexivity.
  Qed.
End BinRange.
