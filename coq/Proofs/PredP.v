(** C05: round trip for label-filter predicates  parse_label_predicate (print p) = p.
    Predicates: string matchers (= != =~ !~), number / duration / bytes comparisons (== != > >= < <=), ip(...) comparisons,
    parentheses, and chains of `and` / `or` in the shape the parser produces (since the fix of D34 `and` binds tighter than `or`,
    chains of one operator nest to the right):
        atom      := comparison | ( predicate )
        and-chain := atom | atom and and-chain
        predicate := and-chain | and-chain or predicate
    The texts of number / duration / byte literals are arbitrary (ntxt, dtxt, btxt); their values are what the library read. *)
From LogQLV Require Import Base.Bytes Base.FloatX Model.Tables Model.Syntax Model.Parser Proofs.ParserP.
From Coq Require Import Lia.

Section Pred.
  Variable anch : bytes -> bool.
  Variable re_names : bytes -> option (list bytes).
  Variable ntxt : float -> bytes.
  Variable dtxt : Z -> bytes.
  Variable btxt : Z -> bytes.
  Notation str_tok := (str_tok anch re_names).

  (** comparison operators as written for typed literals: == for equality *)
  Definition numop_tok (o : binop) : ttype :=
    match o with OpEq => TCmpEq | OpNotEq => TNotEq | OpGt => TGt | OpGte => TGte | OpLt => TLt | _ => TLte end.
  Definition num_op (o : binop) : bool :=
    match o with OpEq | OpNotEq | OpGt | OpGte | OpLt | OpLte => true | _ => false end.

  Fixpoint print_pred (p : pred) : list token :=
    match p with
    | PMatch m => [plain TIdent (m_label m); punct (mop_tok (m_op m)); str_tok (m_value m)]
    | PNum l o v => [plain TIdent l; punct (numop_tok o); num_tok (ntxt v) v]
    | PDur l o ns => [plain TIdent l; punct (numop_tok o); dur_tok (dtxt ns) ns]
    | PBytes l o n => [plain TIdent l; punct (numop_tok o); bytes_tok (btxt n) n]
    | PIP l o pat => [plain TIdent l; punct (numop_tok o); punct TIP; punct TOpenParen; str_tok pat; punct TCloseParen]
    | PParen a => punct TOpenParen :: print_pred a ++ [punct TCloseParen]
    | PBin a o b => print_pred a ++ punct (match o with OpOr => TOr | _ => TAnd end) :: print_pred b
    end.

  Definition is_atom (p : pred) : bool := match p with PBin _ _ _ => false | _ => true end.
  Fixpoint is_andchain (p : pred) : bool :=
    match p with PBin a OpAnd b => is_atom a && is_andchain b | PBin _ _ _ => false | _ => true end.

  Fixpoint wf_pred (p : pred) : Prop :=
    match p with
    | PMatch m => wf_matcher anch m
    | PNum _ o _ | PDur _ o _ | PBytes _ o _ => num_op o = true
    | PIP _ o _ => o = OpEq \/ o = OpNotEq
    | PParen a => wf_pred a
    | PBin a OpAnd b => is_atom a = true /\ is_andchain b = true /\ wf_pred a /\ wf_pred b
    | PBin a OpOr b => is_andchain a = true /\ wf_pred a /\ wf_pred b
    | PBin _ _ _ => False
    end.

  Fixpoint psize (p : pred) : nat :=
    match p with PParen a => S (psize a) | PBin a _ b => S (psize a + psize b) | _ => 1%nat end.

  Lemma psize_le_print p : (psize p <= length (print_pred p))%nat.
  Proof.
    induction p as [m|l o v|l o ns|l o n|l o pat|a IHa o b IHb|a IHa]; cbn [psize print_pred length]; try lia.
    - rewrite app_length. cbn [length]. lia.
    - rewrite app_length. cbn [length]. lia.
  Qed.

  (** what ends a predicate *)
  Definition ends_pred (r : list token) : Prop :=
    match r with
    | t :: _ => is_ty t TIdent = false /\ is_ty t TComma = false /\ is_ty t TAnd = false /\ is_ty t TOr = false /\ is_ty t TEOF = false
    | [] => True
    end.

  (** the part of parseLabelPredicate after the first operand *)
  Definition pred_tail (f : nat) (p : pred) : M pred :=
    do nt <- next;
    if is_ty nt TIdent then unread ;; do r <- parse_label_predicate f; ret (and_join p r)
    else if is_ty nt TComma || is_ty nt TAnd then do r <- parse_label_predicate f; ret (and_join p r)
    else if is_ty nt TOr then do r <- parse_label_predicate f; ret (PBin p OpOr r)
    else if is_ty nt TEOF then ret p
    else unread ;; ret p.

  Lemma tail_end f p pv r : ends_pred r -> pred_tail f p {| prev := pv; rest := r |} = POk p {| prev := pv; rest := r |}.
  Proof.
    intro H. unfold pred_tail, bind, next. cbn [rest prev]. destruct r as [|t r']; [reflexivity|].
    cbn in H. destruct H as [H1 [H2 [H3 [H4 H5]]]]. rewrite H1, H2, H3, H4, H5. reflexivity.
  Qed.

  Lemma tail_and f p pv R : pred_tail f p {| prev := pv; rest := punct TAnd :: R |} =
    (do r <- parse_label_predicate f; ret (and_join p r)) {| prev := punct TAnd :: pv; rest := R |}.
  Proof. reflexivity. Qed.
  Lemma tail_or f p pv R : pred_tail f p {| prev := pv; rest := punct TOr :: R |} =
    (do r <- parse_label_predicate f; ret (PBin p OpOr r)) {| prev := punct TOr :: pv; rest := R |}.
  Proof. reflexivity. Qed.

  (** the first operand: a comparison *)
  Definition is_cmp (p : pred) : bool := match p with PBin _ _ _ | PParen _ => false | _ => true end.

  Lemma cmp_step a f pv R : is_cmp a = true -> wf_pred a ->
    parse_label_predicate (S f) {| prev := pv; rest := print_pred a ++ R |} = pred_tail f a {| prev := rev (print_pred a) ++ pv; rest := R |}.
  Proof.
    intros Hc Hw. destruct a as [m|l o v|l o ns|l o n|l o pat| |]; try discriminate Hc; cbn [wf_pred] in Hw.
    - destruct m as [l o v]. unfold wf_matcher in Hw. cbn [m_op m_value] in Hw.
      destruct o; try contradiction; try reflexivity; cbn; unfold bind, next, peek, parse_string_tok, consume_text, of_opt, ret; cbn; rewrite Hw; reflexivity.
    - destruct o; try discriminate Hw; reflexivity.
    - destruct o; try discriminate Hw; reflexivity.
    - destruct o; try discriminate Hw; reflexivity.
    - destruct Hw as [-> | ->]; reflexivity.
  Qed.

  Lemma paren_step a f pv R :
    parse_label_predicate (S f) {| prev := pv; rest := print_pred (PParen a) ++ R |} =
    (do lp <- parse_label_predicate f; consume TCloseParen ;; pred_tail f (PParen lp)) {| prev := punct TOpenParen :: pv; rest := print_pred a ++ punct TCloseParen :: R |}.
  Proof.
    cbn [print_pred app]. rewrite <- app_assoc. cbn [app]. cbn [parse_label_predicate]. unfold bind at 1, next at 1. cbn [rest prev].
    change (is_ty (punct TOpenParen) TOpenParen) with true. cbv iota.
    unfold bind. cbn [rest prev]. destruct (parse_label_predicate f _) as [lp s'| |]; try reflexivity.
    unfold consume, bind. destruct (next s') as [t s''| |]; try reflexivity. destruct (is_ty t TCloseParen); reflexivity.
  Qed.

  Lemma and_join_chain a b : is_andchain b = true -> and_join a b = PBin a OpAnd b.
  Proof. destruct b as [ | | | | |x o y| ]; try reflexivity. destruct o; try discriminate; reflexivity. Qed.

  Ltac fin_rev := cbn [print_pred]; repeat (progress cbn [rev app] || rewrite rev_app_distr || rewrite <- app_assoc); reflexivity.

  (** the round trip *)
  Lemma pred_print_gen n : forall p, (psize p <= n)%nat -> wf_pred p -> forall fuel pv r, (n < fuel)%nat -> ends_pred r ->
    parse_label_predicate fuel {| prev := pv; rest := print_pred p ++ r |} = POk p {| prev := rev (print_pred p) ++ pv; rest := r |}.
  Proof.
    induction n as [|n IH]; intros p Hs Hw fuel pv r Hf Hr; [destruct p; cbn in Hs; lia|].
    destruct fuel as [|f]; [lia|].
    destruct p as [m|l o v|l o ns|l o k|l o pat|a o b|a].
    1-5: rewrite cmp_step; [apply tail_end; exact Hr|reflexivity|exact Hw].
    - cbn [psize] in Hs. destruct o; cbn [wf_pred] in Hw; try contradiction.
      + (* and: a is an atom, b an and-chain *)
        destruct Hw as [Ha [Hb [Hwa Hwb]]]. cbn [print_pred]. rewrite <- app_assoc. cbn [app].
        assert (Hfirst : parse_label_predicate (S f) {| prev := pv; rest := print_pred a ++ punct TAnd :: print_pred b ++ r |} =
                         pred_tail f a {| prev := rev (print_pred a) ++ pv; rest := punct TAnd :: print_pred b ++ r |}).
        { destruct a as [m|l o v|l o ns|l o k|l o pat| |a']; try discriminate Ha.
          1-5: apply cmp_step; [reflexivity|exact Hwa].
          cbn [wf_pred] in Hwa. cbn [psize] in Hs.
          rewrite paren_step. unfold bind at 1.
          rewrite (IH a'); [|lia|exact Hwa|lia|cbn; repeat split; reflexivity].
          unfold bind at 1, consume, bind, next. cbn [rest prev].
          change (is_ty (punct TCloseParen) TCloseParen) with true. cbv iota. unfold ret at 1.
          fin_rev. }
        rewrite Hfirst, tail_and. unfold bind at 1.
        rewrite (IH b); [|lia|exact Hwb|lia|exact Hr].
        unfold ret. rewrite (and_join_chain a b Hb). fin_rev.
      + (* or: a is an and-chain *)
        destruct Hw as [Ha [Hwa Hwb]]. cbn [print_pred]. rewrite <- app_assoc. cbn [app].
        destruct a as [m|l o v|l o ns|l o k|l o pat|x o y|a'].
        1-5: rewrite cmp_step; [|reflexivity|exact Hwa]; rewrite tail_or; unfold bind at 1;
             (rewrite (IH b); [|cbn [psize] in Hs; lia|exact Hwb|lia|exact Hr]);
             unfold ret; fin_rev.
        * (* (x and y) or b : parsed as x and (y or b), re-associated by and_join *)
          cbn [is_andchain] in Ha. destruct o; try discriminate Ha. apply andb_true_iff in Ha. destruct Ha as [Hx Hy].
          cbn [wf_pred] in Hwa. destruct Hwa as [_ [_ [Hwx Hwy]]]. cbn [psize] in Hs.
          cbn [print_pred]. rewrite <- !app_assoc. cbn [app].
          assert (Hfirst : parse_label_predicate (S f) {| prev := pv; rest := print_pred x ++ punct TAnd :: print_pred y ++ punct TOr :: print_pred b ++ r |} =
                           pred_tail f x {| prev := rev (print_pred x) ++ pv; rest := punct TAnd :: print_pred y ++ punct TOr :: print_pred b ++ r |}).
          { destruct x as [m|l o v|l o ns|l o k|l o pat| |x']; try discriminate Hx.
            1-5: apply cmp_step; [reflexivity|exact Hwx].
            cbn [wf_pred] in Hwx. cbn [psize] in Hs.
            rewrite paren_step. unfold bind at 1.
            rewrite (IH x'); [|lia|exact Hwx|lia|cbn; repeat split; reflexivity].
            unfold bind at 1, consume, bind, next. cbn [rest prev].
            change (is_ty (punct TCloseParen) TCloseParen) with true. cbv iota. unfold ret at 1.
            fin_rev. }
          rewrite Hfirst, tail_and. unfold bind at 1.
          pose proof (IH (PBin y OpOr b)) as IHyb. cbn [print_pred psize wf_pred] in IHyb.
          change (print_pred y ++ punct TOr :: print_pred b ++ r) with (print_pred y ++ (punct TOr :: print_pred b) ++ r).
          rewrite app_assoc.
          rewrite IHyb; [|lia|repeat split; assumption|lia|exact Hr].
          unfold ret. cbn [and_join]. fin_rev.
        * cbn [wf_pred] in Hwa. cbn [psize] in Hs.
          rewrite paren_step. unfold bind at 1.
          rewrite (IH a'); [|lia|exact Hwa|lia|cbn; repeat split; reflexivity].
          unfold bind at 1, consume, bind, next. cbn [rest prev].
          change (is_ty (punct TCloseParen) TCloseParen) with true. cbv iota. unfold ret at 1.
          rewrite tail_or. unfold bind at 1.
          rewrite (IH b); [|lia|exact Hwb|lia|exact Hr].
          unfold ret. fin_rev.
    - (* parentheses *)
      cbn [psize] in Hs. cbn [wf_pred] in Hw. rewrite paren_step. unfold bind at 1.
      rewrite (IH a); [|lia|exact Hw|lia|cbn; repeat split; reflexivity].
      unfold bind at 1, consume, bind, next. cbn [rest prev].
      change (is_ty (punct TCloseParen) TCloseParen) with true. cbv iota. unfold ret at 1.
      rewrite tail_end; [|exact Hr]. fin_rev.
  Qed.

  Theorem pred_print_lemma p fuel pv r : wf_pred p -> (psize p < fuel)%nat -> ends_pred r ->
    parse_label_predicate fuel {| prev := pv; rest := print_pred p ++ r |} = POk p {| prev := rev (print_pred p) ++ pv; rest := r |}.
  Proof. intros Hw Hf Hr. apply (pred_print_gen (psize p) p (le_n _) Hw fuel pv r Hf Hr). Qed.
End Pred.
