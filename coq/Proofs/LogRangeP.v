(** C05: round trip for log-range expressions  {selector} <pipeline> [range] [offset d]  and  {selector} [range] [offset d]
    (the operand of every range aggregation), built on the selector and pipeline round trips. *)
From LogQLV Require Import Base.Bytes Base.FloatX Model.Tables Model.Syntax Model.Parser Proofs.ParserP Proofs.PipelineP.
From Coq Require Import Lia.

Section Range.
  Variable anch : bytes -> bool.
  Variable re_names : bytes -> option (list bytes).

  Definition print_range (rtxt : bytes) (rns : Z) (off : option (bytes * Z)) : list token :=
    punct TOpenBracket :: dur_tok rtxt rns :: punct TCloseBracket ::
    match off with Some (otxt, ons) => [punct TOffset; dur_tok otxt ons] | None => [] end.

  Definition print_logrange (cls : bytes -> ttype) (sel : list matcher) (sts : list stage) (rtxt : bytes) (rns : Z) (off : option (bytes * Z)) : list token :=
    print_selector anch re_names cls sel ++ print_stages anch re_names sts ++ print_range rtxt rns off.

  Definition not_offset (r : list token) : Prop := match r with t :: _ => is_ty t TOffset = false | [] => True end.
  (** what may follow a complete log-range expression without pipeline after the range *)
  Definition closes_range (r : list token) : Prop :=
    ends_pipeline r /\ not_offset r /\ match r with t :: _ => is_ty t TUnwrap = false | [] => True end.

  Lemma range_offset_print rtxt rns off p r : (off = None -> not_offset r) ->
    parse_range_offset {| prev := p; rest := print_range rtxt rns off ++ r |} =
      POk (rns, option_map snd off) {| prev := rev (print_range rtxt rns off) ++ p; rest := r |}.
  Proof.
    intros Hno. destruct off as [[otxt ons]|]; cbn.
    - reflexivity.
    - specialize (Hno eq_refl). destruct r as [|t0 r']; cbn; [reflexivity|]. cbn in Hno. rewrite Hno. reflexivity.
  Qed.

  Theorem logrange_print_lemma cls sel sts rtxt rns off p r fuel :
    Forall (wf_lmatcher anch cls) sel -> Forall (fun m => ttype_eqb (cls (m_label m)) TCloseBrace = false) sel ->
    chain_ok anch re_names sts (print_range rtxt rns off ++ r) ->
    (length sel < fuel)%nat -> (fuel_needed sts < fuel)%nat ->
    (off = None -> not_offset r) ->
    (sts = [] -> closes_range r) ->
    parse_range_expr fuel {| prev := p; rest := print_logrange cls sel sts rtxt rns off ++ r |} =
      POk {| r_sel := sel; r_range := rns; r_pipe := sts; r_unwrap := None; r_offset := option_map snd off |}
          {| prev := rev (print_logrange (fun _ => TIdent) sel sts rtxt rns off) ++ p; rest := r |}.
  Proof.
    intros Hsel Hnc Hchain Hf1 Hf2 Hoff Hclose.
    unfold parse_range_expr, print_logrange. unfold bind at 1. rewrite <- !app_assoc.
    rewrite (parse_selector_print anch re_names cls sel p _ fuel Hsel Hf1 Hnc).
    destruct sts as [|s t].
    - (* no pipeline before the range: [range] first, then an (empty) pipeline *)
      cbn [print_stages flat_map app]. unfold bind at 1, peek at 1. cbn [rest print_range app].
      change (is_ty (punct TOpenBracket) TOpenBracket) with true. cbn iota.
      unfold bind at 1.
      change (punct TOpenBracket :: dur_tok rtxt rns :: punct TCloseBracket :: match off with Some (otxt, ons) => [punct TOffset; dur_tok otxt ons] | None => [] end ++ r)
        with (print_range rtxt rns off ++ r).
      rewrite (range_offset_print rtxt rns off _ r Hoff).
      destruct (Hclose eq_refl) as [Hend [_ Hunw]].
      unfold bind at 1, parse_pipeline_unwrap. unfold bind at 1.
      destruct fuel as [|f]; [lia|].
      assert (Hpl : parse_pipeline (S f) true [] {| prev := rev (print_range rtxt rns off) ++ rev (print_selector anch re_names (fun _ => TIdent) sel) ++ p; rest := r |} =
                    POk [] {| prev := rev (print_range rtxt rns off) ++ rev (print_selector anch re_names (fun _ => TIdent) sel) ++ p; rest := r |}).
      { cbn [parse_pipeline]. unfold bind at 1, peek at 1. cbn [rest]. destruct r as [|t0 r']; [reflexivity|].
        cbn in Hend. destruct Hend as [H1 [H2 [H3 [H4 H5]]]]. rewrite H1, H2, H3, H4, H5. reflexivity. }
      rewrite Hpl. unfold bind at 1, peek at 1. cbn [rest].
      assert (Hu : is_ty (match r with [] => eof_tok | t0 :: _ => t0 end) TUnwrap = false) by (destruct r; [reflexivity|exact Hunw]).
      rewrite Hu. cbn iota. unfold ret. cbn [fst snd]. f_equal. f_equal. unfold print_logrange. cbn [print_stages flat_map app].
      rewrite ?rev_app_distr, <- ?app_assoc. reflexivity.
    - (* a pipeline, then the range *)
      remember (s :: t) as sts eqn:Ests.
      assert (Hhead : exists t0 tl, print_stages anch re_names sts ++ print_range rtxt rns off ++ r = t0 :: tl /\
                (is_ty t0 TOpenBracket = false) /\ (is_ty t0 TPipe || is_ty t0 TPipeExact || is_ty t0 TPipeMatch || is_ty t0 TNotEq || is_ty t0 TNotRe) = true).
      { subst sts. cbn [chain_ok] in Hchain. destruct Hchain as [Hs _].
        destruct s as [o v ip|jl je|ll le| | |pt| |lt| | |rs ts|ls ms|ls ms|ls]; cbn in Hs; try contradiction;
          try (cbn; eexists; eexists; split; [reflexivity|split; reflexivity]).
        destruct ip; destruct o; cbn; try (eexists; eexists; split; [reflexivity|split; reflexivity]); cbn in Hs; try contradiction;
          destruct Hs; discriminate. }
      destruct Hhead as [t0 [tl [Eh [Hb Hp]]]].
      unfold bind at 1, peek at 1. cbn [rest]. rewrite Eh. rewrite Hb, Hp. cbn iota. rewrite <- Eh.
      unfold bind at 1, parse_pipeline_unwrap. unfold bind at 1.
      rewrite (pipeline_print_lemma anch re_names sts fuel true [] _ _ Hchain Hf2). cbn [app].
      unfold bind at 1, peek at 1. cbn [rest print_range app].
      change (is_ty (punct TOpenBracket) TUnwrap) with false. cbn iota. cbn [ret bind].
      change (punct TOpenBracket :: dur_tok rtxt rns :: punct TCloseBracket :: match off with Some (otxt, ons) => [punct TOffset; dur_tok otxt ons] | None => [] end ++ r)
        with (print_range rtxt rns off ++ r).
      unfold bind at 1. rewrite (range_offset_print rtxt rns off _ r Hoff).
      unfold ret. cbn [fst snd]. f_equal. f_equal. unfold print_logrange. rewrite ?rev_app_distr, <- ?app_assoc. reflexivity.
  Qed.
End Range.
