(** C11: topk / bottomk through the bounded heap, and the final sort.  Stated for any comparator pair (less, greater)
    that comes from one total preorder on the samples at hand -- which Sample.Less / Sample.Greater do on NaN-free
    values (NaN ordering is excluded, as the design says). *)
From LogQLV Require Import Base.Bytes Base.FloatX Base.LMap Base.Heap Model.Tables Model.Stages Model.Engine Model.Metric Proofs.HeapP Proofs.HeapExtP Proofs.HeapOrderP Proofs.GroupP Proofs.VaggP Proofs.FloatOrderP.
From Coq Require Import Permutation Sorted.
Local Open Scope nat_scope.

Section Topk.
  Variable leq : sample -> sample -> Prop.                 (* "a is not better than b": for bottomk, a >= b ... see below *)
  Variable less greater : sample -> sample -> bool.
  (** [leq a b] reads "a ranks at or before b" (for bottomk: a <= b by value; for topk: a >= b) *)
  Hypothesis leq_trans : forall a b c, leq a b -> leq b c -> leq a c.
  Hypothesis leq_total : forall a b, leq a b \/ leq b a.
  Hypothesis less_true : forall a b, less a b = true -> ~ leq b a.           (* a strictly before b *)
  Hypothesis less_false : forall a b, less a b = false -> leq b a.
  Hypothesis greater_true : forall a b, greater a b = true -> ~ leq a b.     (* a strictly after b *)
  Hypothesis greater_false : forall a b, greater a b = false -> leq a b.

  Notation hle := (le sample greater).      (* HeapOrderP's order for the heap built with compare = greater *)

  Lemma hle_iff x y : hle x y <-> leq y x.
  Proof.
    unfold le. split.
    - intro H. apply greater_false. exact H.
    - intro H. destruct (greater y x) eqn:E; [|reflexivity]. apply greater_true in E. contradiction.
  Qed.
  Lemma hle_trans x y z : hle x y -> hle y z -> hle x z.
  Proof. rewrite !hle_iff. intros A B. eapply leq_trans; eassumption. Qed.
  Lemma hle_total x y : hle x y \/ hle y x.
  Proof. rewrite !hle_iff. destruct (leq_total x y); auto. Qed.

  (** the bounded heap after offering a sequence of samples: [kept] the heap, [dropped] what was discarded or evicted *)
  Definition topk_inv (k : Z) (h dropped seen : list sample) : Prop :=
    heap_ok sample greater dummy_sample h /\
    Permutation (h ++ dropped) seen /\
    (Z.of_nat (length h) <= k)%Z /\
    ((Z.of_nat (length h) < k)%Z -> dropped = []) /\
    (forall d y, In d dropped -> In y h -> leq y d).            (* every kept sample ranks at or before every dropped one *)

  Lemma root_is_last h : heap_ok sample greater dummy_sample h -> forall y, In y h -> leq y (get dummy_sample h 0).
  Proof.
    intros Hok y Hy. apply In_nth with (d := dummy_sample) in Hy. destruct Hy as [i [Hi Hn]]. rewrite <- Hn.
    apply hle_iff. apply (root_min sample greater dummy_sample hle_trans hle_total h Hok i Hi).
  Qed.

  Lemma heap_offer_inv k h dropped seen s : (0 < k)%Z ->
    topk_inv k h dropped seen ->
    exists dropped', topk_inv k (heap_offer less greater k h s) dropped' (seen ++ [s]).
  Proof.
    intros Hk [Hok [Hp [Hlen [Hfull Hrank]]]]. unfold heap_offer.
    destruct (Z.ltb_spec k 0); [lia|].
    destruct (Z.ltb_spec (Z.of_nat (length h)) k) as [Hlt|Hge].
    - (* not full: push *)
      exists dropped. pose proof (heap_push_perm sample greater dummy_sample h s) as Pp.
      rewrite (Hfull Hlt) in *. rewrite app_nil_r in *.
      split; [apply (heap_push_ok sample greater dummy_sample hle_trans hle_total); exact Hok|].
      split; [rewrite app_nil_r; eapply Permutation_trans; [exact Pp|]; eapply Permutation_trans; [apply Permutation_cons_append|]; apply Permutation_app_tail; exact Hp|].
      split; [rewrite (Permutation_length Pp); cbn [length]; lia|].
      split; [reflexivity|]. intros d y [].
    - (* full *)
      assert (Hne : h <> []) by (intro; subst; cbn in Hge; lia).
      destruct (less s (get dummy_sample h 0)) eqn:El.
      + (* s ranks strictly before the last kept one: evict the root *)
        destruct (heap_pop greater dummy_sample h) as [[r h']|] eqn:Epop; [|apply heap_pop_none in Epop; contradiction].
        pose proof (heap_pop_perm _ _ _ _ _ _ Epop) as Ppop.
        destruct (heap_pop_ok sample greater dummy_sample hle_trans hle_total h r h' Hok Epop) as [Hok' Hmin].
        pose proof (heap_push_perm sample greater dummy_sample h' s) as Pp.
        exists (r :: dropped).
        assert (Hr0 : forall y, In y h -> leq y r).
        { intros y Hy. eapply Permutation_in in Hy; [|exact Ppop]. destruct Hy as [<-|Hy]; [destruct (leq_total r r); assumption|].
          apply hle_iff. apply Hmin. exact Hy. }
        assert (Hsr : leq s r).
        { (* root = r up to ranking: s before root; root ranks with r *)
          assert (Hroot : leq (get dummy_sample h 0) r) by (apply Hr0; apply nth_In; destruct h; [congruence|cbn; lia]).
          apply less_true in El. destruct (leq_total s (get dummy_sample h 0)) as [L|L]; [eapply leq_trans; eassumption|contradiction]. }
        split; [apply (heap_push_ok sample greater dummy_sample hle_trans hle_total); exact Hok'|].
        split.
        { eapply Permutation_trans; [apply Permutation_app_tail; exact Pp|]. cbn [app].
          eapply Permutation_trans; [|apply Permutation_cons_append]. constructor.
          eapply Permutation_trans; [apply Permutation_sym; apply Permutation_middle|].
          eapply Permutation_trans; [|exact Hp].
          apply (Permutation_app_tail dropped (Permutation_sym Ppop)). }
        split; [rewrite (Permutation_length Pp); cbn [length]; pose proof (Permutation_length Ppop) as Hl; cbn [length] in Hl; lia|].
        split; [intro Hc; rewrite (Permutation_length Pp) in Hc; cbn [length] in Hc; pose proof (Permutation_length Ppop) as Hl; cbn [length] in Hl; lia|].
        intros d y Hd Hy. eapply Permutation_in in Hy; [|exact Pp]. destruct Hd as [<-|Hd]; destruct Hy as [<-|Hy].
        * exact Hsr.
        * apply Hr0. eapply Permutation_in; [apply Permutation_sym; exact Ppop|right; exact Hy].
        * eapply leq_trans; [exact Hsr|]. apply Hrank; [exact Hd|]. eapply Permutation_in; [apply Permutation_sym; exact Ppop|left; reflexivity].
        * apply Hrank; [exact Hd|]. eapply Permutation_in; [apply Permutation_sym; exact Ppop|right; exact Hy].
      + (* s does not rank before the last kept one: discard it *)
        exists (s :: dropped).
        split; [exact Hok|].
        split; [eapply Permutation_trans; [apply Permutation_sym, Permutation_middle|]; eapply Permutation_trans; [apply Permutation_cons_append|]; apply Permutation_app_tail; exact Hp|].
        split; [exact Hlen|]. split; [intro; lia|].
        intros d y [<-|Hd] Hy; [|apply Hrank; assumption].
        eapply leq_trans; [apply root_is_last; [exact Hok|exact Hy]|]. apply less_false. exact El.
  Qed.

  Lemma offer_all k : (0 < k)%Z -> forall samples h dropped seen,
    topk_inv k h dropped seen ->
    exists dropped', topk_inv k (fold_left (heap_offer less greater k) samples h) dropped' (seen ++ samples).
  Proof.
    intros Hk. induction samples as [|s t IH]; intros h dropped seen Hinv; cbn [fold_left].
    - exists dropped. rewrite app_nil_r. exact Hinv.
    - destruct (heap_offer_inv k h dropped seen s Hk Hinv) as [d1 H1].
      destruct (IH _ _ _ H1) as [d2 H2]. exists d2. rewrite <- app_assoc in H2. exact H2.
  Qed.

  Lemma topk_inv_nil k : (0 < k)%Z -> topk_inv k [] [] [].
  Proof.
    intro Hk. split; [intros i Hi; cbn in Hi; lia|]. split; [constructor|]. split; [cbn; lia|]. split; [reflexivity|]. intros d y [].
  Qed.

  (** * the final per-group sort *)
  Lemma insert_s_sorted x l : StronglySorted leq l -> StronglySorted leq (insert_s less x l).
  Proof.
    induction 1 as [|y t Ht IH Hall]; cbn; [repeat constructor|].
    destruct (less x y) eqn:E.
    - assert (Hxy : leq x y) by (apply less_true in E; destruct (leq_total x y); [assumption|contradiction]).
      constructor; [constructor; assumption|]. constructor; [exact Hxy|].
      eapply Forall_impl; [|exact Hall]. intros a Ha. eapply leq_trans; eassumption.
    - constructor; [exact IH|].
      assert (Hp : Permutation (insert_s less x t) (x :: t)).
      { clear. induction t as [|z t IHt]; cbn; [reflexivity|]. destruct (less x z); [reflexivity|].
        eapply Permutation_trans; [apply perm_skip; exact IHt|apply perm_swap]. }
      apply (Permutation_Forall (Permutation_sym Hp)). constructor; [apply less_false; exact E|exact Hall].
  Qed.

  Lemma sort_s_sorted l : StronglySorted leq (sort_s less l).
  Proof. unfold sort_s. induction l as [|x t IH]; cbn; [constructor|apply insert_s_sorted; exact IH]. Qed.

  Lemma sort_s_perm' l : Permutation (sort_s less l) l.
  Proof.
    unfold sort_s. induction l as [|x t IH]; cbn; [reflexivity|].
    assert (Hp : forall m, Permutation (insert_s less x m) (x :: m)).
    { induction m as [|z m IHm]; cbn; [reflexivity|]. destruct (less x z); [reflexivity|].
      eapply Permutation_trans; [apply perm_skip; exact IHm|apply perm_swap]. }
    eapply Permutation_trans; [apply Hp|apply perm_skip; exact IH].
  Qed.

  (** the selection of one group: k best-ranked members (all of them when the group is smaller), none worse than an omitted one,
      values and labels untouched (the samples themselves are returned), in rank order *)
  Theorem topk_group_lemma k samples : (0 < k)%Z ->
    let out := sort_s less (fold_left (heap_offer less greater k) samples []) in
    exists dropped,
      Permutation (out ++ dropped) samples /\
      Z.of_nat (length out) = Z.min k (Z.of_nat (length samples)) /\
      (forall d y, In d dropped -> In y out -> leq y d) /\
      StronglySorted leq out.
  Proof.
    intros Hk. cbn zeta. destruct (offer_all k Hk samples [] [] [] (topk_inv_nil k Hk)) as [dropped [Hok [Hp [Hlen [Hfull Hrank]]]]].
    cbn [app] in Hp. set (h := fold_left (heap_offer less greater k) samples []) in *.
    exists dropped. split; [eapply Permutation_trans; [apply Permutation_app_tail; apply sort_s_perm'|exact Hp]|].
    split.
    - rewrite (Permutation_length (sort_s_perm' h)).
      pose proof (Permutation_length Hp) as Hl. rewrite app_length in Hl.
      destruct (Z.ltb_spec (Z.of_nat (length h)) k) as [Hlt|Hge].
      + rewrite (Hfull Hlt) in Hl. cbn in Hl. lia.
      + lia.
    - split; [|apply sort_s_sorted].
      intros d y Hd Hy. apply Hrank; [exact Hd|]. eapply Permutation_in; [apply sort_s_perm'|exact Hy].
  Qed.
End Topk.

(** * all groups at once: each group's heap is the bounded heap of exactly that group's samples, in arrival order *)
Section Groups.
  Variable less greater : sample -> sample -> bool.
  Variable k : Z.
  Variable keyf : sample -> lmap.

  Lemma heap_offer_in h s x : In x (heap_offer less greater k h s) -> In x h \/ x = s.
  Proof.
    unfold heap_offer. destruct (k <? 0)%Z.
    - intro H. apply in_app_or in H. destruct H as [H|[H|[]]]; auto.
    - destruct (Z.of_nat (length h) <? k)%Z.
      + intro H. eapply Permutation_in in H; [|apply heap_push_perm]. destruct H; auto.
      + destruct (less s (get dummy_sample h 0)); [|auto].
        destruct (heap_pop greater dummy_sample h) as [[r h']|] eqn:E; [|auto].
        intro H. eapply Permutation_in in H; [|apply heap_push_perm]. destruct H as [H|H]; [auto|].
        left. eapply Permutation_in; [apply Permutation_sym; eapply heap_pop_perm; exact E|right; exact H].
  Qed.

  Fixpoint hg_get (gs : list hgroup) (key : lmap) : list sample :=
    match gs with
    | [] => []
    | (k0, h) :: t => if lmap_eqb k0 key then h else hg_get t key
    end.

  Lemma hg_get_offer gs key s key' :
    hg_get (hg_offer less greater k gs key s) key' =
    if lmap_eqb key key' then heap_offer less greater k (hg_get gs key') s else hg_get gs key'.
  Proof.
    induction gs as [|[k0 h] t IH]; cbn [hg_offer hg_get].
    - destruct (lmap_eqb key key'); reflexivity.
    - destruct (lmap_eqb k0 key) eqn:E1; cbn [hg_get].
      + apply lmap_eqb_eq in E1. subst k0. destruct (lmap_eqb key key'); reflexivity.
      + destruct (lmap_eqb k0 key') eqn:E2; [|exact IH].
        apply lmap_eqb_eq in E2. subst k0. destruct (lmap_eqb key key') eqn:E3; [|reflexivity].
        apply lmap_eqb_eq in E3. subst key'. rewrite lmap_eqb_refl in E1. discriminate.
  Qed.

  Definition offer_step (gs : list hgroup) (sm : sample) := hg_offer less greater k gs (keyf sm) sm.

  Lemma hg_fold_get samples : forall gs key,
    hg_get (fold_left offer_step samples gs) key =
    fold_left (heap_offer less greater k) (filter (fun sm => lmap_eqb (keyf sm) key) samples) (hg_get gs key).
  Proof.
    induction samples as [|sm t IH]; intros gs key; cbn [fold_left filter]; [reflexivity|].
    rewrite IH. unfold offer_step. rewrite hg_get_offer.
    destruct (lmap_eqb (keyf sm) key); reflexivity.
  Qed.

  (** well-formed group list: distinct keys, and every heap holds only samples of its key *)
  Fixpoint hg_wf (gs : list hgroup) : Prop :=
    match gs with
    | [] => True
    | (k0, h) :: t => (forall x, In x h -> keyf x = k0) /\ (forall g, In g t -> fst g <> k0) /\ hg_wf t
    end.

  Lemma hg_offer_keys gs key s g : In g (hg_offer less greater k gs key s) -> fst g = key \/ exists g0, In g0 gs /\ fst g0 = fst g.
  Proof.
    induction gs as [|[k0 h] t IH]; cbn [hg_offer].
    - intros [<-|[]]. left. reflexivity.
    - destruct (lmap_eqb k0 key) eqn:E.
      + intros [<-|H]; right; [exists (k0, h); split; [left; reflexivity|reflexivity]|exists g; split; [right; exact H|reflexivity]].
      + intros [<-|H]; [right; exists (k0, h); split; [left; reflexivity|reflexivity]|].
        destruct (IH H) as [L|[g0 [Hg0 Hf]]]; [left; exact L|right; exists g0; split; [right; exact Hg0|exact Hf]].
  Qed.

  Lemma hg_offer_wf gs s : hg_wf gs -> hg_wf (offer_step gs s).
  Proof.
    unfold offer_step. induction gs as [|[k0 h] t IH]; cbn [hg_offer hg_wf].
    - intros _. split; [|split; [intros g []|exact I]].
      intros x Hx. apply heap_offer_in in Hx. destruct Hx as [Hx|Hx]; [destruct Hx|subst x; reflexivity].
    - intros [Hh [Hk Hw]]. destruct (lmap_eqb k0 (keyf s)) eqn:E; cbn [hg_wf].
      + apply lmap_eqb_eq in E. split; [|split; assumption].
        intros x Hx. apply heap_offer_in in Hx. destruct Hx as [Hx|Hx]; [apply Hh; exact Hx|subst x; symmetry; exact E].
      + split; [exact Hh|]. split; [|apply IH; exact Hw].
        intros g Hg. apply hg_offer_keys in Hg. destruct Hg as [Hg|[g0 [Hg0 Hf]]].
        * rewrite Hg. intro C. subst k0. rewrite lmap_eqb_refl in E. discriminate.
        * rewrite <- Hf. apply Hk. exact Hg0.
  Qed.

  Lemma hg_fold_wf samples : forall gs, hg_wf gs -> hg_wf (fold_left offer_step samples gs).
  Proof. induction samples as [|sm t IH]; intros gs H; cbn [fold_left]; [exact H|]. apply IH. apply hg_offer_wf. exact H. Qed.

  Lemma filter_all {A} (f : A -> bool) l : (forall x, In x l -> f x = true) -> filter f l = l.
  Proof. induction l as [|a t IH]; intro H; cbn; [reflexivity|]. rewrite (H a (or_introl eq_refl)). f_equal. apply IH. intros x Hx. apply H. right. exact Hx. Qed.
  Lemma filter_none {A} (f : A -> bool) l : (forall x, In x l -> f x = false) -> filter f l = [].
  Proof. induction l as [|a t IH]; intro H; cbn; [reflexivity|]. rewrite (H a (or_introl eq_refl)). apply IH. intros x Hx. apply H. right. exact Hx. Qed.

  Lemma hg_get_absent gs key : (forall g, In g gs -> fst g <> key) -> hg_get gs key = [].
  Proof.
    induction gs as [|[k0 h] t IH]; intro H; cbn [hg_get]; [reflexivity|].
    destruct (lmap_eqb k0 key) eqn:E; [apply lmap_eqb_eq in E; exfalso; apply (H (k0, h)); [left; reflexivity|exact E]|].
    apply IH. intros g Hg. apply H. right. exact Hg.
  Qed.

  Lemma filter_flat gs key : hg_wf gs ->
    filter (fun sm => lmap_eqb (keyf sm) key) (flat_map (fun gr : hgroup => sort_s less (snd gr)) gs) = sort_s less (hg_get gs key).
  Proof.
    induction gs as [|[k0 h] t IH]; cbn [hg_wf flat_map hg_get snd]; [intros _; reflexivity|].
    intros [Hh [Hk Hw]]. rewrite filter_app. destruct (lmap_eqb k0 key) eqn:E.
    - apply lmap_eqb_eq in E. subst k0. rewrite filter_all.
      + rewrite IH by exact Hw. rewrite hg_get_absent by exact Hk. cbn. apply app_nil_r.
      + intros x Hx. eapply Permutation_in in Hx; [|apply sort_s_perm]. rewrite (Hh x Hx). apply lmap_eqb_refl.
    - rewrite filter_none; [apply IH; exact Hw|].
      intros x Hx. eapply Permutation_in in Hx; [|apply sort_s_perm]. rewrite (Hh x Hx). exact E.
  Qed.

  (** the output restricted to one group key is the sorted bounded heap of that group's samples *)
  Lemma heap_groups samples key :
    filter (fun sm => lmap_eqb (keyf sm) key) (flat_map (fun gr : hgroup => sort_s less (snd gr)) (fold_left offer_step samples [])) =
    sort_s less (fold_left (heap_offer less greater k) (filter (fun sm => lmap_eqb (keyf sm) key) samples) []).
  Proof. rewrite filter_flat by (apply hg_fold_wf; exact I). rewrite hg_fold_get. reflexivity. Qed.
End Groups.

(** * relativised to a domain: the comparator pair only has to come from a total preorder ON THE DOMAIN [p]
      (for the engine: samples whose value is not NaN).  Outside the domain nothing is assumed. *)
Section TopkRel.
  Variable p : sample -> bool.
  Variable leq : sample -> sample -> Prop.
  Variable less greater : sample -> sample -> bool.
  Notation P := (fun x => p x = true).
  Hypothesis p_dummy : p dummy_sample = true.
  Hypothesis leq_trans : forall a b c, P a -> P b -> P c -> leq a b -> leq b c -> leq a c.
  Hypothesis leq_total : forall a b, P a -> P b -> leq a b \/ leq b a.
  Hypothesis less_true : forall a b, P a -> P b -> less a b = true -> ~ leq b a.
  Hypothesis less_false : forall a b, P a -> P b -> less a b = false -> leq b a.
  Hypothesis greater_true : forall a b, P a -> P b -> greater a b = true -> ~ leq a b.
  Hypothesis greater_false : forall a b, P a -> P b -> greater a b = false -> leq a b.

  (** totalisation: everything outside the domain is one equivalence class ranked first *)
  Definition leq' (a b : sample) : Prop := p a = false \/ (p a = true /\ p b = true /\ leq a b).
  Definition less' (a b : sample) : bool := (p a && p b && less a b) || (negb (p a) && p b).
  Definition greater' (a b : sample) : bool := (p a && p b && greater a b) || (p a && negb (p b)).

  Lemma leq'_trans a b c : leq' a b -> leq' b c -> leq' a c.
  Proof.
    intros [Ha|[Ha [Hb Hab]]] H2; [left; exact Ha|].
    destruct H2 as [Hb'|[_ [Hc Hbc]]]; [congruence|]. right. split; [exact Ha|]. split; [exact Hc|]. exact (leq_trans a b c Ha Hb Hc Hab Hbc).
  Qed.
  Lemma leq'_total a b : leq' a b \/ leq' b a.
  Proof.
    destruct (p a) eqn:Ha; [|left; left; exact Ha]. destruct (p b) eqn:Hb; [|right; left; exact Hb].
    destruct (leq_total a b Ha Hb); [left|right]; right; auto.
  Qed.
  Lemma less'_true a b : less' a b = true -> ~ leq' b a.
  Proof.
    unfold less', leq'. destruct (p a) eqn:Ha, (p b) eqn:Hb; cbn; rewrite ?orb_false_r; intros H; try discriminate.
    - intros [C|[_ [_ C]]]; [discriminate|]. exact (less_true a b Ha Hb H C).
    - intros [C|[_ [C _]]]; discriminate.
  Qed.
  Lemma less'_false a b : less' a b = false -> leq' b a.
  Proof.
    unfold less', leq'. destruct (p a) eqn:Ha, (p b) eqn:Hb; cbn; rewrite ?orb_false_r; intros H; try discriminate; auto.
    all: right; split; [reflexivity|]; split; [reflexivity|]; apply less_false; assumption.
  Qed.
  Lemma greater'_true a b : greater' a b = true -> ~ leq' a b.
  Proof.
    unfold greater', leq'. destruct (p a) eqn:Ha, (p b) eqn:Hb; cbn; rewrite ?orb_false_r; intros H; try discriminate.
    - intros [C|[_ [_ C]]]; [discriminate|]. exact (greater_true a b Ha Hb H C).
    - intros [C|[_ [C _]]]; discriminate.
  Qed.
  Lemma greater'_false a b : greater' a b = false -> leq' a b.
  Proof.
    unfold greater', leq'. destruct (p a) eqn:Ha, (p b) eqn:Hb; cbn; rewrite ?orb_false_r; intros H; try discriminate; auto.
    all: right; split; [reflexivity|]; split; [reflexivity|]; apply greater_false; assumption.
  Qed.

  Lemma less_agree x y : P x -> P y -> less x y = less' x y.
  Proof. intros Hx Hy. unfold less'. rewrite Hx, Hy. cbn. rewrite orb_false_r. reflexivity. Qed.
  Lemma greater_agree x y : P x -> P y -> greater x y = greater' x y.
  Proof. intros Hx Hy. unfold greater'. rewrite Hx, Hy. cbn. rewrite orb_false_r. reflexivity. Qed.

  Lemma heap_offer_P k h s : Forall P h -> P s -> Forall P (heap_offer less greater k h s).
  Proof.
    intros Hh Hs. apply Forall_forall. intros x Hx. apply heap_offer_in in Hx. destruct Hx as [Hx|Hx]; [|subst x; exact Hs].
    rewrite Forall_forall in Hh. apply Hh. exact Hx.
  Qed.

  Lemma heap_offer_ext k h s : Forall P h -> P s -> heap_offer less greater k h s = heap_offer less' greater' k h s.
  Proof.
    intros Hh Hs. unfold heap_offer. destruct (k <? 0)%Z; [reflexivity|].
    destruct (Z.of_nat (length h) <? k)%Z.
    - apply (heap_push_ext sample greater greater' dummy_sample P greater_agree p_dummy); assumption.
    - rewrite (less_agree s (get dummy_sample h 0) Hs (get_P sample dummy_sample P p_dummy h 0 Hh)).
      destruct (less' s (get dummy_sample h 0)); [|reflexivity].
      rewrite <- (heap_pop_ext sample greater greater' dummy_sample P greater_agree p_dummy h Hh).
      destruct (heap_pop greater dummy_sample h) as [[r h']|] eqn:E; [|reflexivity].
      apply (heap_push_ext sample greater greater' dummy_sample P greater_agree p_dummy); [|exact Hs].
      apply heap_pop_perm in E. pose proof (Permutation_Forall E Hh) as HF. inversion HF; assumption.
  Qed.

  Lemma fold_offer_ext k samples : forall h, Forall P samples -> Forall P h ->
    fold_left (heap_offer less greater k) samples h = fold_left (heap_offer less' greater' k) samples h /\
    Forall P (fold_left (heap_offer less greater k) samples h).
  Proof.
    induction samples as [|s t IH]; intros h Hs Hh; cbn [fold_left]; [split; [reflexivity|exact Hh]|].
    inversion Hs as [|s0 t0 Hs1 Hs2]; subst.
    rewrite <- (heap_offer_ext k h s Hh Hs1). apply IH; [exact Hs2|apply heap_offer_P; assumption].
  Qed.

  Lemma insert_s_ext x l : P x -> Forall P l -> insert_s less x l = insert_s less' x l.
  Proof.
    intros Hx Hl. induction Hl as [|y t Hy Ht IH]; cbn; [reflexivity|].
    rewrite (less_agree x y Hx Hy). destruct (less' x y); [reflexivity|]. f_equal. exact IH.
  Qed.
  Lemma sort_s_ext l : Forall P l -> sort_s less l = sort_s less' l.
  Proof.
    unfold sort_s. induction 1 as [|x t Hx Ht IH]; cbn; [reflexivity|]. rewrite <- IH. apply insert_s_ext; [exact Hx|].
    apply (Permutation_Forall (Permutation_sym (sort_s_perm less t))). exact Ht.
  Qed.

  Lemma sorted_weaken (R R' : sample -> sample -> Prop) l :
    (forall x y, In x l -> In y l -> R x y -> R' x y) -> StronglySorted R l -> StronglySorted R' l.
  Proof.
    intros H S. induction S as [|a t St IH Hall]; constructor.
    - apply IH. intros x y Hx Hy. apply H; right; assumption.
    - rewrite Forall_forall in *. intros y Hy. apply H; [left; reflexivity|right; exact Hy|apply Hall; exact Hy].
  Qed.

  Theorem topk_group_rel k samples : (0 < k)%Z -> Forall P samples ->
    let out := sort_s less (fold_left (heap_offer less greater k) samples []) in
    exists dropped,
      Permutation (out ++ dropped) samples /\
      Z.of_nat (length out) = Z.min k (Z.of_nat (length samples)) /\
      (forall d y, In d dropped -> In y out -> leq y d) /\
      StronglySorted leq out.
  Proof.
    intros Hk Hs. cbn zeta.
    destruct (fold_offer_ext k samples [] Hs (Forall_nil _)) as [Hext HP].
    rewrite (sort_s_ext _ HP), Hext.
    destruct (topk_group_lemma leq' less' greater' leq'_trans leq'_total less'_true less'_false greater'_true greater'_false k samples Hk)
      as [dropped [Hp [Hlen [Hrank Hsorted]]]].
    exists dropped. split; [exact Hp|]. split; [exact Hlen|].
    assert (Hall : forall x, In x (sort_s less' (fold_left (heap_offer less' greater' k) samples []) ++ dropped) -> P x).
    { intros x Hx. eapply Permutation_in in Hx; [|exact Hp]. rewrite Forall_forall in Hs. apply Hs. exact Hx. }
    assert (Hweak : forall x y, P x -> P y -> leq' x y -> leq x y).
    { intros x y Hx Hy [C|[_ [_ C]]]; [congruence|exact C]. }
    split.
    - intros d y Hd Hy. apply Hweak; [apply Hall; apply in_or_app; left; exact Hy|apply Hall; apply in_or_app; right; exact Hd|apply Hrank; assumption].
    - eapply sorted_weaken; [|exact Hsorted]. intros x y Hx Hy. apply Hweak; apply Hall; apply in_or_app; left; assumption.
  Qed.

  Theorem sort_sorted_rel l : Forall P l -> StronglySorted leq (sort_s less l).
  Proof.
    intro Hl. rewrite (sort_s_ext l Hl).
    eapply sorted_weaken; [|apply (sort_s_sorted leq' less' leq'_trans leq'_total less'_true less'_false)].
    intros x y Hx Hy [C|[_ [_ C]]]; [|exact C].
    eapply Permutation_in in Hx; [|apply sort_s_perm]. rewrite Forall_forall in Hl. rewrite (Hl x Hx) in C. discriminate.
  Qed.
End TopkRel.

(** * the engine's comparators on NaN-free values (IEEE facts from FloatOrderP) *)
Definition nonnan (sm : sample) : bool := negb (PrimFloat.is_nan (fst sm)).
Definition is_asc (op : vecop) : bool := match op with VBottomk | VSort => true | _ => false end.
(** [rank_le op a b]: a comes at or before b in op's output order (ascending by value for bottomk / sort, descending for topk / sort_desc) *)
Definition rank_le (op : vecop) (a b : sample) : Prop :=
  if is_asc op then PrimFloat.leb (fst a) (fst b) = true else PrimFloat.leb (fst b) (fst a) = true.

Lemma nonnan_inv a : nonnan a = true -> PrimFloat.is_nan (fst a) = false.
Proof. unfold nonnan. destruct (PrimFloat.is_nan (fst a)); [discriminate|reflexivity]. Qed.

Lemma s_less_nonnan a b : nonnan a = true -> s_less a b = PrimFloat.ltb (fst a) (fst b).
Proof. intro H. unfold s_less. change is_nan with PrimFloat.is_nan. rewrite (nonnan_inv a H). reflexivity. Qed.
Lemma s_greater_nonnan a b : nonnan a = true -> s_greater a b = PrimFloat.ltb (fst b) (fst a).
Proof. intro H. unfold s_greater, fgt. change is_nan with PrimFloat.is_nan. rewrite (nonnan_inv a H). reflexivity. Qed.

Section Asc.
  Let leq (a b : sample) : Prop := PrimFloat.leb (fst a) (fst b) = true.
  Lemma asc_trans a b c : nonnan a = true -> nonnan b = true -> nonnan c = true -> leq a b -> leq b c -> leq a c.
  Proof. intros Ha Hb Hc. apply leb_trans; apply nonnan_inv; assumption. Qed.
  Lemma asc_total a b : nonnan a = true -> nonnan b = true -> leq a b \/ leq b a.
  Proof. intros Ha Hb. apply leb_total; apply nonnan_inv; assumption. Qed.
  Lemma asc_lt_true a b : nonnan a = true -> nonnan b = true -> PrimFloat.ltb (fst a) (fst b) = true -> ~ leq b a.
  Proof. intros Ha Hb H C. unfold leq in C. rewrite (ltb_negb_leb _ _ (nonnan_inv a Ha) (nonnan_inv b Hb)), C in H. discriminate. Qed.
  Lemma asc_lt_false a b : nonnan a = true -> nonnan b = true -> PrimFloat.ltb (fst a) (fst b) = false -> leq b a.
  Proof. intros Ha Hb H. unfold leq. rewrite (ltb_negb_leb _ _ (nonnan_inv a Ha) (nonnan_inv b Hb)) in H. destruct (PrimFloat.leb (fst b) (fst a)); [reflexivity|discriminate]. Qed.
End Asc.

Lemma nonnan_dummy : nonnan dummy_sample = true.
Proof. vm_compute. reflexivity. Qed.

(** the six comparator facts for each orientation *)
Lemma rank_facts op :
  let less := if is_asc op then s_less else s_greater in
  let greater := if is_asc op then s_greater else s_less in
  (forall a b c, nonnan a = true -> nonnan b = true -> nonnan c = true -> rank_le op a b -> rank_le op b c -> rank_le op a c) /\
  (forall a b, nonnan a = true -> nonnan b = true -> rank_le op a b \/ rank_le op b a) /\
  (forall a b, nonnan a = true -> nonnan b = true -> less a b = true -> ~ rank_le op b a) /\
  (forall a b, nonnan a = true -> nonnan b = true -> less a b = false -> rank_le op b a) /\
  (forall a b, nonnan a = true -> nonnan b = true -> greater a b = true -> ~ rank_le op a b) /\
  (forall a b, nonnan a = true -> nonnan b = true -> greater a b = false -> rank_le op a b).
Proof.
  unfold rank_le. destruct (is_asc op); cbn zeta.
  - split; [intros a b c; apply asc_trans|]. split; [intros a b; apply asc_total|].
    split; [intros a b Ha Hb; rewrite (s_less_nonnan a b Ha); apply asc_lt_true; assumption|].
    split; [intros a b Ha Hb; rewrite (s_less_nonnan a b Ha); apply asc_lt_false; assumption|].
    split; [intros a b Ha Hb; rewrite (s_greater_nonnan a b Ha); apply asc_lt_true; assumption|].
    intros a b Ha Hb; rewrite (s_greater_nonnan a b Ha); apply asc_lt_false; assumption.
  - split; [intros a b c Ha Hb Hc H1 H2; exact (asc_trans c b a Hc Hb Ha H2 H1)|].
    split; [intros a b Ha Hb; destruct (asc_total a b Ha Hb); auto|].
    split; [intros a b Ha Hb; rewrite (s_greater_nonnan a b Ha); apply asc_lt_true; assumption|].
    split; [intros a b Ha Hb; rewrite (s_greater_nonnan a b Ha); apply asc_lt_false; assumption|].
    split; [intros a b Ha Hb; rewrite (s_less_nonnan a b Ha); apply asc_lt_true; assumption|].
    intros a b Ha Hb; rewrite (s_less_nonnan a b Ha); apply asc_lt_false; assumption.
Qed.

Lemma vheap_comparators op :
  (match op with VBottomk | VSort => (s_less, s_greater) | _ => (s_greater, s_less) end) =
  (if is_asc op then s_less else s_greater, if is_asc op then s_greater else s_less).
Proof. destruct op; reflexivity. Qed.

(** topk / bottomk of the engine, per group, on NaN-free vectors: for every group key the output samples of that group are
    the k best-ranked members of the group (all of them when it is smaller), none worse than an omitted one, the samples
    themselves (value and labels untouched), in rank order. *)
Theorem topk_groups_lemma op k g s key :
  (0 < k)%Z -> Forall (fun sm => nonnan sm = true) (st_samples s) ->
  let keyf := fun sm : sample => key_of (vec_grouping g (snd sm)) in
  let members := filter (fun sm => lmap_eqb (keyf sm) key) (st_samples s) in
  let out := filter (fun sm => lmap_eqb (keyf sm) key) (st_samples (vheap_step vec_grouping op k g s)) in
  exists dropped,
    Permutation (out ++ dropped) members /\
    Z.of_nat (length out) = Z.min k (Z.of_nat (length members)) /\
    (forall d y, In d dropped -> In y out -> rank_le op y d) /\
    StronglySorted (rank_le op) out.
Proof.
  intros Hk Hnn keyf members out.
  set (less := if is_asc op then s_less else s_greater). set (greater := if is_asc op then s_greater else s_less).
  assert (Hout : out = sort_s less (fold_left (heap_offer less greater k) members [])).
  { unfold out, vheap_step. rewrite vheap_comparators. fold less greater. destruct (Z.eqb_spec k 0); [lia|].
    cbn [st_samples]. apply (heap_groups less greater k keyf). }
  rewrite Hout. destruct (rank_facts op) as [F1 [F2 [F3 [F4 [F5 F6]]]]].
  apply (topk_group_rel nonnan (rank_le op) less greater nonnan_dummy F1 F2 F3 F4 F5 F6 k members Hk).
  unfold members. apply Forall_forall. intros x Hx. apply filter_In in Hx. rewrite Forall_forall in Hnn. apply Hnn. apply Hx.
Qed.

(** sort / sort_desc on a NaN-free vector: the output is ordered by value (ascending / descending) *)
Theorem sort_sorted_lemma op s : (op = VSort \/ op = VSortDesc) -> Forall (fun sm => nonnan sm = true) (st_samples s) ->
  StronglySorted (rank_le op) (st_samples (vheap_step vec_grouping op (-1) GNone s)).
Proof.
  intros Hop Hnn. destruct (rank_facts op) as [F1 [F2 [F3 [F4 [F5 F6]]]]].
  assert (Hout : st_samples (vheap_step vec_grouping op (-1) GNone s) = sort_s (if is_asc op then s_less else s_greater) (st_samples s)).
  { destruct Hop as [-> | ->]; unfold vheap_step; cbn [Z.eqb st_samples is_asc]; apply heap_sort_all. }
  rewrite Hout. apply (sort_sorted_rel nonnan (rank_le op) _ F1 F2 F3 F4). exact Hnn.
Qed.
