From LogQLV Require Import Base.Bytes Base.FloatX Model.Tables Model.Syntax Model.Parser.
From Coq Require Import Lia.

(** * Static rules (validate()) *)
Lemma range_param_only_quantile op p g u :
  rangeop_code op <> rangeop_code RangeOpQuantile -> range_validate op (Some p) g u = false.
Proof. unfold range_validate. intro H. apply Z.eqb_neq in H. rewrite H. reflexivity. Qed.

Lemma range_quantile_needs_param g u : range_validate RangeOpQuantile None g u = false.
Proof. reflexivity. Qed.

Lemma range_grouping_rule op p g u : range_validate op p (Some g) u = true ->
  In op [RangeOpAvg; RangeOpStddev; RangeOpStdvar; RangeOpQuantile; RangeOpMax; RangeOpMin; RangeOpFirst; RangeOpLast].
Proof. destruct op, p, u; cbn; intro H; try discriminate; tauto. Qed.

Lemma range_unwrap_required op p g : range_validate op p g false = true ->
  In op [RangeOpBytes; RangeOpBytesRate; RangeOpCount; RangeOpRate; RangeOpAbsent].
Proof. destruct op, p, g; cbn; intro H; try discriminate; tauto. Qed.

Lemma range_unwrap_forbidden op p g : range_validate op p g true = true ->
  ~ In op [RangeOpBytes; RangeOpBytesRate; RangeOpCount].
Proof. destruct op, p, g; cbn; intro H; try discriminate; intuition discriminate. Qed.

Lemma vector_k_rule op k g : vector_validate op k g = true ->
  (In op [VectorOpTopk; VectorOpBottomk] -> exists v, k = Some v /\ 0 < v) /\
  (~ In op [VectorOpTopk; VectorOpBottomk] -> k = None).
Proof.
  destruct op, k as [v|], g; cbn; intro H; try discriminate; split; intro Hin;
    try (exfalso; apply Hin; tauto); try (cbn in Hin; intuition discriminate); try reflexivity;
    try (exists v; split; [reflexivity|]; apply andb_true_iff in H as [H _]; apply Z.ltb_lt in H; exact H).
Qed.

Lemma vector_sort_no_grouping op k g : In op [VectorOpSort; VectorOpSortDesc] -> vector_validate op k (Some g) = false.
Proof. intros [<-|[<-|[]]]; destruct k; reflexivity. Qed.

(** a token that carries no library result *)
Definition plain (t : ttype) (s : bytes) : token :=
  {| ty := t; text := s; v_float := None; v_int := None; v_dur := None; v_bytes := None; v_re := None; v_re_anch := false |}.

(** tokens that carry a library result: the value strconv.ParseFloat / lexerql.ParseDuration / humanize.ParseBytes read from the text *)
Definition num_tok (txt : bytes) (v : float) : token :=
  {| ty := TNumber; text := txt; v_float := Some v; v_int := None; v_dur := None; v_bytes := None; v_re := None; v_re_anch := false |}.
Definition dur_tok (txt : bytes) (ns : Z) : token :=
  {| ty := TDuration; text := txt; v_float := None; v_int := None; v_dur := Some ns; v_bytes := None; v_re := None; v_re_anch := false |}.
Definition bytes_tok (txt : bytes) (n : Z) : token :=
  {| ty := TBytes; text := txt; v_float := None; v_int := None; v_dur := None; v_bytes := Some n; v_re := None; v_re_anch := false |}.

(** the text of an operator / punctuation / keyword token: its spelling in the lexer's table (the first one listed; the round-trip
    proofs never read it, so they hold for whatever text such a token carries -- this choice makes the printed tokens literally
    the ones the lexer produces, see LexParseP) *)
Definition spelling (t : ttype) : bytes :=
  match find (fun kv => ttype_eqb (snd kv) t) keyword_table with Some kv => fst kv | None => [] end.
Arguments spelling : simpl never.
Notation punct t := (plain t (spelling t)) (only parsing).

(** * Round trip for stream selectors: parse (print ms) = ms, for every list of matchers *)
Section Selector.
  Variable anch : bytes -> bool.     (* does  ^(?:v)$  compile?  (library oracle) *)
  Variable re_names : bytes -> option (list bytes).

  Definition str_tok (v : bytes) : token :=
    {| ty := TString; text := v; v_float := None; v_int := None; v_dur := None; v_bytes := None; v_re := re_names v; v_re_anch := anch v |}.

  Definition mop_tok (o : binop) : ttype :=
    match o with OpEq => TEq | OpNotEq => TNotEq | OpRe => TRe | _ => TNotRe end.

  Definition wf_matcher (m : matcher) : Prop :=
    match m_op m with
    | OpEq | OpNotEq => True
    | OpRe | OpNotRe => anch (m_value m) = true
    | _ => False
    end.

  (** [cls l] is the token type the lexer gives the label name [l] (Ident, or a keyword type for by / on / json / ...).
      A name is accepted in selector position when it lexes as Ident, or as anything but a String and is a valid label
      name (D29). *)
  Definition lbl_ok (k : ttype) (l : bytes) : bool := ttype_eqb k TIdent || (negb (ttype_eqb k TString) && is_valid_label l).

  Section Cls.
  Variable cls : bytes -> ttype.
  Definition print_matcher (m : matcher) : list token :=
    [plain (cls (m_label m)) (m_label m); punct (mop_tok (m_op m)); str_tok (m_value m)].

  Fixpoint print_matchers (ms : list matcher) : list token :=
    match ms with
    | [] => []
    | [m] => print_matcher m
    | m :: t => print_matcher m ++ punct TComma :: print_matchers t
    end.

  Definition print_selector (ms : list matcher) : list token :=
    punct TOpenBrace :: print_matchers ms ++ [punct TCloseBrace].
  End Cls.

  Notation as_ident := (fun _ : bytes => TIdent).

  Lemma parse_matcher_print m p r : wf_matcher m ->
    parse_label_matcher {| prev := p; rest := print_matcher as_ident m ++ r |} =
      POk m {| prev := rev (print_matcher as_ident m) ++ p; rest := r |}.
  Proof.
    destruct m as [l o v]. unfold wf_matcher. cbn [m_op m_value].
    destruct o; intro H; try contradiction; cbn; try rewrite H; reflexivity.
  Qed.

  Lemma ttype_eqb_ident k : ttype_eqb k TIdent = true -> k = TIdent.
  Proof. destruct k; intro H; try reflexivity; discriminate H. Qed.

  Lemma retype_print cls m p r : lbl_ok (cls (m_label m)) (m_label m) = true ->
    retype_kw {| prev := p; rest := print_matcher cls m ++ r |} = POk tt {| prev := p; rest := print_matcher as_ident m ++ r |}.
  Proof.
    intro H. unfold retype_kw, print_matcher. cbn [app rest prev]. unfold is_ty. cbn [ty text plain].
    destruct (negb (ttype_eqb (cls (m_label m)) TString) && is_valid_label (m_label m)) eqn:E; [reflexivity|].
    unfold lbl_ok in H. rewrite E, orb_false_r in H. rewrite (ttype_eqb_ident _ H). reflexivity.
  Qed.

  Definition wf_lmatcher cls (m : matcher) : Prop := wf_matcher m /\ lbl_ok (cls (m_label m)) (m_label m) = true.

  Lemma matchers_loop_print cls ms : forall fuel acc p r, ms <> [] -> Forall (wf_lmatcher cls) ms -> (length ms <= fuel)%nat ->
    matchers_loop fuel acc {| prev := p; rest := print_matchers cls ms ++ punct TCloseBrace :: r |} =
      POk (acc ++ ms) {| prev := punct TCloseBrace :: rev (print_matchers as_ident ms) ++ p; rest := r |}.
  Proof.
    induction ms as [|m t IH]; intros fuel acc p r Hne Hwf Hf; [congruence|].
    inversion Hwf as [|? ? [Hm Hl] Ht]; subst.
    destruct fuel as [|f]; [cbn in Hf; lia|].
    destruct t as [|m2 t'].
    - cbn [print_matchers matchers_loop]. unfold bind at 1. rewrite (retype_print cls m p _ Hl).
      unfold bind at 1.
      rewrite (parse_matcher_print m p _ Hm).
      cbn. reflexivity.
    - change (print_matchers cls (m :: m2 :: t')) with (print_matcher cls m ++ punct TComma :: print_matchers cls (m2 :: t')).
      change (print_matchers as_ident (m :: m2 :: t')) with (print_matcher as_ident m ++ punct TComma :: print_matchers as_ident (m2 :: t')).
      cbn [matchers_loop]. unfold bind at 1.
      rewrite <- app_assoc. rewrite (retype_print cls m p _ Hl). unfold bind at 1.
      rewrite (parse_matcher_print m p _ Hm).
      cbn [app]. unfold bind at 1. unfold next at 1. cbn [rest prev].
      cbn [is_ty ty plain ttype_eqb ttype_code Z.eqb].
      change (ttype_eqb TComma TCloseBrace) with false. change (ttype_eqb TComma TComma) with true. cbn iota.
      cbn [Pos.eqb]. rewrite IH; [|discriminate|exact Ht|cbn in *; lia].
      rewrite <- app_assoc. cbn [app].
      rewrite rev_app_distr. cbn [rev app]. rewrite <- !app_assoc. cbn [app]. reflexivity.
  Qed.

  (** the first token of a printed, accepted matcher is never '}' *)
  Lemma lbl_ok_not_close k l : lbl_ok k l = true -> ttype_eqb k TCloseBrace = false \/ is_valid_label l = true.
  Proof. unfold lbl_ok. destruct (ttype_eqb k TIdent) eqn:E; [apply ttype_eqb_ident in E; subst; left; reflexivity|]. cbn. intro H. apply andb_true_iff in H. right. apply H. Qed.

  Lemma parse_selector_print cls ms p r fuel : Forall (wf_lmatcher cls) ms -> (length ms < fuel)%nat ->
    Forall (fun m => ttype_eqb (cls (m_label m)) TCloseBrace = false) ms ->
    parse_selector fuel {| prev := p; rest := print_selector cls ms ++ r |} =
      POk ms {| prev := rev (print_selector as_ident ms) ++ p; rest := r |}.
  Proof.
    intros Hwf Hf Hnc. destruct fuel as [|f]; [lia|].
    unfold print_selector. cbn [parse_selector app]. unfold bind at 1, next at 1. cbn [rest prev].
    change (is_ty (punct TOpenBrace) TOpenParen) with false.
    change (is_ty (punct TOpenBrace) TOpenBrace) with true. cbn iota.
    destruct ms as [|m t].
    - cbn. reflexivity.
    - unfold bind at 1, peek at 1. cbn [rest].
      assert (exists t0 rest0, (print_matchers cls (m :: t) ++ [punct TCloseBrace]) ++ r = t0 :: rest0 /\ ty t0 = cls (m_label m)) as [t0 [rest0 [E Et]]].
      { destruct t; cbn; eauto. }
      rewrite E. unfold is_ty. rewrite Et. inversion Hnc as [|? ? Hc ?]; subst. rewrite Hc. cbn iota.
      rewrite <- E. rewrite <- app_assoc. cbn [app].
      rewrite (matchers_loop_print cls (m :: t) f [] _ r); [|discriminate|exact Hwf|cbn in *; lia].
      cbn [app]. f_equal. f_equal. cbn [rev]. rewrite rev_app_distr. cbn [rev app]. rewrite <- !app_assoc. reflexivity.
  Qed.
End Selector.
