(** C10: the series key is a function of the visible label set alone, and an injective one. *)
From LogQLV Require Import Base.Bytes Base.FloatX Base.LMap Model.Tables Model.Flags Model.Stages Model.Engine Model.Metric Spec.MetricSpec Proofs.GroupP Proofs.RangeP.
From Coq Require Import Permutation Sorted.
From LogQLV Require Import Proofs.VaggP.

(** * The 8-byte length prefix is injective below 2^64 *)
Lemma bz_byte_of_Z' z : 0 <= z < 256 -> bz (byte_of_Z' z) = z.
Proof.
  intro H. unfold byte_of_Z', bz.
  destruct (Byte.of_N (Z.to_N z)) as [b|] eqn:E.
  - apply Byte.to_of_N in E. rewrite E. lia.
  - exfalso. apply Byte.of_N_None_iff in E. lia.
Qed.

Lemma le64_length n : length (le64 n) = 8%nat.
Proof. reflexivity. Qed.

Lemma digits_inj : forall (k : nat) n m, 0 <= n < 256 ^ Z.of_nat k -> 0 <= m < 256 ^ Z.of_nat k ->
  (forall i, 0 <= i < Z.of_nat k -> (n / 256 ^ i) mod 256 = (m / 256 ^ i) mod 256) -> n = m.
Proof.
  induction k as [|k IH]; intros n m Hn Hm Hd.
  - cbn in Hn, Hm. lia.
  - rewrite Nat2Z.inj_succ, Z.pow_succ_r in Hn, Hm by lia.
    assert (H0 : n mod 256 = m mod 256).
    { specialize (Hd 0 ltac:(lia)). rewrite !Z.pow_0_r, !Z.div_1_r in Hd. exact Hd. }
    assert (H1 : n / 256 = m / 256).
    { apply IH.
      - split; [apply Z.div_pos; lia|apply Z.div_lt_upper_bound; lia].
      - split; [apply Z.div_pos; lia|apply Z.div_lt_upper_bound; lia].
      - intros i Hi. specialize (Hd (i + 1) ltac:(lia)).
        rewrite Z.pow_add_r, Z.pow_1_r in Hd by lia.
        rewrite !Z.div_div by (try lia; apply Z.pow_pos_nonneg; lia).
        rewrite (Z.mul_comm 256 (256 ^ i)). exact Hd. }
    rewrite (Z.div_mod n 256), (Z.div_mod m 256) by lia. rewrite H0, H1. reflexivity.
Qed.

Lemma le64_inj n m : 0 <= n < 2 ^ 64 -> 0 <= m < 2 ^ 64 -> le64 n = le64 m -> n = m.
Proof.
  intros Hn Hm H. unfold le64 in H. cbn [map] in H.
  assert (Hd : forall a b, byte_of_Z' (a mod 256) = byte_of_Z' (b mod 256) -> a mod 256 = b mod 256).
  { intros a b Hi. apply (f_equal bz) in Hi. rewrite !bz_byte_of_Z' in Hi by (apply Z.mod_pos_bound; lia). exact Hi. }
  injection H as H0 H1 H2 H3 H4 H5 H6 H7.
  apply Hd in H0, H1, H2, H3, H4, H5, H6, H7.
  apply (digits_inj 8 n m).
  - change (256 ^ Z.of_nat 8) with (2 ^ 64). exact Hn.
  - change (256 ^ Z.of_nat 8) with (2 ^ 64). exact Hm.
  - intros i Hi. assert (i = 0 \/ i = 1 \/ i = 2 \/ i = 3 \/ i = 4 \/ i = 5 \/ i = 6 \/ i = 7) as Hc by lia.
    destruct Hc as [->|[->|[->|[->|[->|[->|[->| ->]]]]]]]; assumption.
Qed.

Definition short (s : bytes) : Prop := Z.of_nat (length s) < 2 ^ 64.

Lemma app_inv_length {A} (a b c d : list A) : length a = length b -> a ++ c = b ++ d -> a = b /\ c = d.
Proof.
  revert b; induction a as [|x a IH]; intros [|y b] Hl H; cbn in *; try discriminate; [auto|].
  inversion H; subst. destruct (IH b ltac:(lia) H2) as [-> ->]. auto.
Qed.

(** a length-prefixed string can be split off in only one way *)
Lemma ser_string_prefix_free s s' r r' : short s -> short s' -> ser_string s ++ r = ser_string s' ++ r' -> s = s' /\ r = r'.
Proof.
  intros Hs Hs' H. unfold ser_string in H. rewrite <- !app_assoc in H.
  destruct (app_inv_length _ _ _ _ (eq_trans (le64_length _) (eq_sym (le64_length _))) H) as [Hl Hrest].
  apply le64_inj in Hl; [|unfold short in *; lia|unfold short in *; lia].
  apply Nat2Z.inj in Hl. apply (app_inv_length _ _ _ _ Hl Hrest).
Qed.

Definition short_map (m : list (bytes * bytes)) : Prop := Forall (fun kv => short (fst kv) /\ short (snd kv)) m.

Lemma serialise_nonempty kv t : serialise (kv :: t) <> [].
Proof. cbn. unfold ser_string. cbn. discriminate. Qed.

(** the serialisation hashed by Key() determines the label set *)
Theorem serialise_inj_lemma : forall a b, short_map a -> short_map b -> serialise a = serialise b -> a = b.
Proof.
  induction a as [|[k v] a IH]; intros [|[k' v'] b] Ha Hb H.
  - reflexivity.
  - exfalso. symmetry in H. exact (serialise_nonempty _ _ H).
  - exfalso. exact (serialise_nonempty _ _ H).
  - inversion Ha as [|? ? [Hk Hv] Ha']; inversion Hb as [|? ? [Hk' Hv'] Hb']; subst. cbn in *.
    rewrite <- !app_assoc in H.
    destruct (ser_string_prefix_free _ _ _ _ Hk Hk' H) as [-> H2].
    destruct (ser_string_prefix_free _ _ _ _ Hv Hv' H2) as [-> H3].
    f_equal. apply IH; assumption.
Qed.

(** before D7 the boundary between a name and its value was not recorded *)
Lemma serialise_prefix_refuted : exists a b, a <> b /\ serialise_prefix a = serialise_prefix b.
Proof. exists [(["a";"b"]%byte, ["c"%byte])], [(["a"%byte], ["b";"c"]%byte)]. split; [discriminate|reflexivity]. Qed.
(** before D6 the entries were hashed in materialisation (map iteration) order: the same set in two orders gave two keys *)
Lemma order_dependence_refuted : exists a b, Permutation a b /\ serialise_prefix a <> serialise_prefix b.
Proof.
  exists [(["a"%byte], ["1"%byte]); (["b"%byte], ["2"%byte])], [(["b"%byte], ["2"%byte]); (["a"%byte], ["1"%byte])].
  split; [apply perm_swap|discriminate].
Qed.

(** * Two samples land in one series iff their visible label sets are equal *)
Lemma key_iff_labels_lemma a b : lmap_eqb (key_of a) (key_of b) = true <-> visible a = visible b.
Proof. unfold key_of. apply lmap_eqb_eq. Qed.

(** * Conservation: the series of a step partition the samples of its window *)
Fixpoint sum_nat (l : list nat) : nat := match l with [] => O | x :: t => (x + sum_nat t)%nat end.

Lemma one_hit keys x : NoDup keys -> In x keys -> sum_nat (map (fun k => if lmap_eqb x k then 1%nat else 0%nat) keys) = 1%nat.
Proof.
  induction keys as [|k t IH]; intros Hn Hin; [contradiction|]. inversion Hn; subst. cbn.
  destruct Hin as [->|Hin].
  - rewrite lmap_eqb_refl. f_equal.
    assert (Hz : forall l, ~ In x l -> sum_nat (map (fun k => if lmap_eqb x k then 1%nat else 0%nat) l) = 0%nat).
    { induction l as [|y l IHl]; intro Hy; [reflexivity|]. cbn.
      destruct (lmap_eqb x y) eqn:E; [apply lmap_eqb_eq in E; subst; exfalso; apply Hy; left; reflexivity|].
      apply IHl. intro; apply Hy; right; assumption. }
    rewrite Hz by assumption. reflexivity.
  - destruct (lmap_eqb x k) eqn:E; [apply lmap_eqb_eq in E; subst; contradiction|]. cbn. apply IH; assumption.
Qed.

Lemma sum_nat_add {A} (f g : A -> nat) l : sum_nat (map (fun k => (f k + g k)%nat) l) = (sum_nat (map f l) + sum_nat (map g l))%nat.
Proof. induction l as [|x t IH]; cbn; [reflexivity|]. rewrite IH. lia. Qed.

Lemma partition_count {A} (keyf : A -> lmap) keys : NoDup keys ->
  forall l, (forall e, In e l -> In (keyf e) keys) ->
  sum_nat (map (fun k => length (filter (fun e => lmap_eqb (keyf e) k) l)) keys) = length l.
Proof.
  intros Hn. induction l as [|e t IH]; intro Hcov.
  - cbn. clear. induction keys as [|k t IH]; cbn; [reflexivity|exact IH].
  - cbn [filter length].
    rewrite (map_ext _ (fun k => ((if lmap_eqb (keyf e) k then 1 else 0) + length (filter (fun e0 => lmap_eqb (keyf e0) k) t))%nat)).
    + rewrite sum_nat_add, one_hit; [|exact Hn|apply Hcov; left; reflexivity]. rewrite IH; [reflexivity|]. intros; apply Hcov; right; assumption.
    + intro k. destruct (lmap_eqb (keyf e) k); reflexivity.
Qed.

(** per step, the numbers of samples held by the series add up to the number of samples in the window *)
Theorem count_conserved_lemma g range offset ses T :
  let inw := filter (in_window range offset T) ses in
  sum_nat (map (fun k => length (filter (fun e => lmap_eqb (series_key g e) k) inw)) (distinct_keys (map (series_key g) inw))) = length inw.
Proof.
  intro inw. apply partition_count; [apply distinct_keys_nodup|].
  intros e He. apply distinct_keys_in. apply in_map. exact He.
Qed.

(** no step of a range aggregation holds two series with one label set *)
Lemma no_dup_series_range_lemma agg g range offset ses Ts :
  StronglySorted ts_le ses -> StronglySorted Z.lt Ts ->
  Forall (fun st => NoDup (map (fun sm : sample => key_of (snd sm)) (st_samples st)))
         (range_run win_clear agg g range offset Ts {| rs_window := []; rs_rest := ses |}).
Proof.
  intros H1 H2. pose proof (range_exact_full agg g range offset ses Ts H1 H2) as HF.
  revert HF. generalize (range_run win_clear agg g range offset Ts {| rs_window := []; rs_rest := ses |}) as steps. intros steps HF.
  induction HF as [|T st Ts' sts Hok HF IH]; constructor; [apply Hok|apply IH]. inversion H2; assumption.
Qed.

Lemma no_dup_series_vagg_lemma op g s : is_heap_op op = false ->
  NoDup (map (fun sm : sample => key_of (snd sm)) (st_samples (vagg_step vec_grouping op g s))).
Proof. intro H. apply (vagg_groups_lemma op g s [] H). Qed.
