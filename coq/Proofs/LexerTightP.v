(** C05: the lexer theorem of LexerP without the demand for white space between tokens.
    Tokens may be written with NO white space after them wherever the next character cannot be taken for a continuation of the
    token ([boundary]): after an identifier or keyword anything that is not an identifier character, after a one-character operator
    anything that does not make a two-character operator (or a comment / flag opener) with it, after a number anything that is not
    a digit, letter, underscore or dot, after a duration anything that is not a unit or digit, after a string or a two-character
    operator anything.  So  {app="x",env=~"p"}|="err"|json  and  sum by(a)(rate({app="x"}[5m]))  lex like their spaced writings. *)
From LogQLV Require Import Base.Bytes Base.TimeFmt Model.Tables Model.Parser Model.Lexer Proofs.LexerP.
From Coq Require Import Lia.

Definition head_is (P : byte -> Prop) (r : bytes) : Prop := match r with [] => True | d :: _ => P d end.

Definition guard1 (c d : byte) : bool :=
  negb (byte_eqb c "/"%byte && (byte_eqb d "/"%byte || byte_eqb d "*"%byte)) && negb (byte_eqb c "."%byte && is_digit_b d) &&
  negb (byte_eqb c "-"%byte && byte_eqb d "-"%byte).
Definition num_follow (d : byte) : bool :=
  negb (is_digit_b d) && negb (is_letter_b d) && negb (byte_eqb d "_"%byte) && negb (byte_eqb d "."%byte).

(** what may directly follow a token *)
Definition boundary (t : ltok) (rest : bytes) : Prop :=
  match t with
  | LId _ | LWord _ _ | LFun _ _ => head_is (fun d => ident_rune d = false) rest
  | LPunct _ [c] => head_is (fun d => lookup_kw [c; d] keyword_table = None /\ guard1 c d = true) rest
  | LPunct _ _ => True
  | LStr _ | LRaw _ => True
  | LNum _ => head_is (fun d => num_follow d = true) rest
  | LDur _ _ => head_is (fun d => is_value_rune d = false) rest
  end.

Lemma space_facts3 sp : is_space_b sp = true -> ident_rune sp = false /\ num_follow sp = true /\ is_value_rune sp = false /\ (forall c, guard1 c sp = true).
Proof.
  intro H. destruct (space_facts sp H) as [S1 [S2 [S3 S4]]]. destruct (space_facts2 sp H) as [T1 [T2 [_ [_ [T5 [T6 T7]]]]]].
  split; [apply space_not_ident; exact H|]. split; [unfold num_follow; rewrite T7, T1, T2, T5; reflexivity|]. split; [exact T6|].
  intro c. unfold guard1. rewrite S1, S2, S3, S4. cbn. rewrite !andb_false_r. reflexivity.
Qed.

Lemma boundary_space t sp r : is_space_b sp = true -> boundary t (sp :: r).
Proof.
  intro H. destruct (space_facts3 sp H) as [B1 [B2 [B3 B4]]].
  destruct t as [n|ty w|ty w|v|ty w|ds|ds u|v]; cbn [boundary head_is]; try exact B1; try exact B2; try exact B3; try exact I.
  destruct w as [|c [|d w']]; try exact I. cbn [head_is]. split; [apply kw_no_space; exact H|apply B4].
Qed.

(** * separators: white space and `#` comments (each running to a newline) *)
Fixpoint sep_scan (in_comment : bool) (s : bytes) : bool :=
  match s with
  | [] => negb in_comment
  | c :: t => if in_comment then (if bz c =? 10 then sep_scan false t else sep_scan true t)
              else if is_space_b c then sep_scan false t
              else if byte_eqb c "#"%byte then sep_scan true t else false
  end.
Definition is_sep (ws : bytes) : bool := sep_scan false ws.

Lemma spaces_sep ws : forallb is_space_b ws = true -> is_sep ws = true.
Proof. unfold is_sep. induction ws as [|c t IH]; intro H; [reflexivity|]. cbn in H. apply andb_true_iff in H. destruct H as [Hc Ht]. cbn. rewrite Hc. apply IH. exact Ht. Qed.

(** inside a comment: it ends at the first newline, and what follows is again a separator *)
Lemma comment_split ws : sep_scan true ws = true -> exists post, (length post < length ws)%nat /\ sep_scan false post = true /\ forall s, skip_comment (ws ++ s) = post ++ s.
Proof.
  induction ws as [|c t IH]; intro H; [discriminate|]. cbn [sep_scan] in H.
  destruct (bz c =? 10) eqn:E.
  - exists t. split; [cbn; lia|]. split; [exact H|]. intro s. cbn [app skip_comment]. rewrite E. reflexivity.
  - destruct (IH H) as [post [Hl [Hp Hs]]]. exists post. split; [cbn; lia|]. split; [exact Hp|]. intro s. cbn [app skip_comment]. rewrite E. apply Hs.
Qed.

Lemma hash_facts : in_alphabet "#"%byte = true /\ is_space_b "#"%byte = false.
Proof. split; reflexivity. Qed.

Lemma skip_sep_gen n : forall ws, (length ws <= n)%nat -> is_sep ws = true -> forall fuel s acc, (length (ws ++ s) < fuel)%nat ->
  exists fuel', (length s < fuel')%nat /\ lex_loop fuel (ws ++ s) acc = lex_loop fuel' s acc.
Proof.
  induction n as [|n IH]; intros ws Hl Hsep fuel s acc Hf.
  - destruct ws; [|cbn in Hl; lia]. exists fuel. split; [exact Hf|reflexivity].
  - destruct ws as [|c t]; [exists fuel; split; [exact Hf|reflexivity]|].
    unfold is_sep in Hsep. cbn [sep_scan] in Hsep. destruct fuel as [|f]; [cbn in Hf; lia|].
    destruct (is_space_b c) eqn:Es.
    + cbn [app lex_loop]. rewrite (space_in_alphabet c Es). cbn [negb]. rewrite Es.
      apply (IH t); [cbn in Hl; lia|exact Hsep|cbn in Hf; lia].
    + destruct (byte_eqb c "#"%byte) eqn:Eh; [|discriminate]. apply byte_eqb_eq in Eh. subst c.
      destruct (comment_split t Hsep) as [post [Hlp [Hp Hsk]]].
      cbn [app lex_loop]. change (in_alphabet "#"%byte) with true. change (is_space_b "#"%byte) with false. change (byte_eqb "#"%byte "#"%byte) with true. cbn [negb].
      rewrite Hsk. apply (IH post); [cbn in Hl; lia|exact Hp|]. cbn [length app] in Hf. rewrite app_length in *. lia.
Qed.

Lemma skip_sep ws fuel s acc : is_sep ws = true -> (length (ws ++ s) < fuel)%nat ->
  exists fuel', (length s < fuel')%nat /\ lex_loop fuel (ws ++ s) acc = lex_loop fuel' s acc.
Proof. intros H Hf. apply (skip_sep_gen (length ws) ws (le_n _) H fuel s acc Hf). Qed.

Lemma skip_wsc_sep_gen n : forall ws, (length ws <= n)%nat -> is_sep ws = true -> forall fuel d r, (length ws < fuel)%nat -> keep_char d = true ->
  skip_ws_comments fuel (ws ++ d :: r) = d :: r.
Proof.
  induction n as [|n IH]; intros ws Hl Hsep fuel d r Hf Hd; (destruct fuel as [|f]; [lia|]).
  - destruct ws; [|cbn in Hl; lia]. destruct (keep_char_facts d Hd) as [K1 K2]. cbn [app skip_ws_comments]. rewrite K1, K2. reflexivity.
  - destruct ws as [|c t]; [destruct (keep_char_facts d Hd) as [K1 K2]; cbn [app skip_ws_comments]; rewrite K1, K2; reflexivity|].
    unfold is_sep in Hsep. cbn [sep_scan] in Hsep. destruct (is_space_b c) eqn:Es.
    + cbn [app skip_ws_comments]. rewrite Es. apply (IH t); [cbn in Hl; lia|exact Hsep|cbn in Hf; lia|exact Hd].
    + destruct (byte_eqb c "#"%byte) eqn:Eh; [|discriminate].
      destruct (comment_split t Hsep) as [post [Hlp [Hp Hsk]]].
      cbn [app skip_ws_comments]. rewrite Es, Eh. rewrite Hsk. apply (IH post); [cbn in Hl; lia|exact Hp|cbn in Hf; lia|exact Hd].
Qed.

Lemma kw_no_hash : forallb (fun kv => match fst kv with [_; d] => negb (byte_eqb d "#"%byte) | _ => true end) keyword_table = true.
Proof. vm_compute. reflexivity. Qed.

Lemma boundary_hash t r : boundary t ("#"%byte :: r).
Proof.
  destruct t as [n|ty w|ty w|v|ty w|ds|ds u|v]; cbn [boundary head_is]; try reflexivity; try exact I.
  destruct w as [|c [|d w']]; try exact I. cbn [head_is]. split.
  - destruct (lookup_kw [c; "#"%byte] keyword_table) as [ty'|] eqn:E; [|reflexivity].
    apply lookup_in in E. pose proof kw_no_hash as G. rewrite forallb_forall in G. specialize (G _ E). cbn in G. discriminate G.
  - unfold guard1. change (byte_eqb "#"%byte "/"%byte) with false. change (byte_eqb "#"%byte "*"%byte) with false.
    change (is_digit_b "#"%byte) with false. change (byte_eqb "#"%byte "-"%byte) with false. cbn. rewrite !andb_false_r. reflexivity.
Qed.

(** * the step lemmas, with an arbitrary continuation *)
Lemma word_step_g w r f acc : is_valid_label w = true -> head_is (fun d => ident_rune d = false) r ->
  lex_loop (S f) (w ++ r) acc =
    match lookup_kw w keyword_table with
    | Some ty => if is_function ty then lex_loop (S f) (w ++ r) acc else lex_loop f r (acc ++ [(ty, w)])
    | None => lex_loop f r (acc ++ [(TIdent, w)])
    end.
Proof.
  intros Hw Hr. unfold is_valid_label in Hw. destruct w as [|c t]; [discriminate|].
  apply andb_true_iff in Hw. destruct Hw as [Hc Hall].
  destruct (ident_start_facts c Hc) as [H1 [H2 [H3 [H4 [H5 [H6 [H7 [H8 [H9 H10]]]]]]]]].
  destruct (lookup_kw (c :: t) keyword_table) as [ty|] eqn:E; [destruct (is_function ty) eqn:Ef; [reflexivity|]|].
  - cbn [app lex_loop]. rewrite H1, H2, H3, H4, H5, H6, H7, H8, H9, H10. cbn [negb andb]. rewrite Hc.
    change (c :: t ++ r) with ((c :: t) ++ r). rewrite (span_stop ident_rune (c :: t) r Hall Hr). rewrite E, Ef. reflexivity.
  - cbn [app lex_loop]. rewrite H1, H2, H3, H4, H5, H6, H7, H8, H9, H10. cbn [negb andb]. rewrite Hc.
    change (c :: t ++ r) with ((c :: t) ++ r). rewrite (span_stop ident_rune (c :: t) r Hall Hr). rewrite E. reflexivity.
Qed.

Lemma punct1_step_g c ty r f acc : punct_char c = true -> lookup_kw [c] keyword_table = Some ty ->
  head_is (fun d => lookup_kw [c; d] keyword_table = None /\ guard1 c d = true) r -> (length r < f)%nat ->
  lex_loop (S f) (c :: r) acc = lex_loop f r (acc ++ [(ty, [c])]).
Proof.
  intros Hc Hk Hr Hf. destruct (punct_facts c Hc) as [H1 [H2 [H3 [H4 [H5 [H6 [H7 H8]]]]]]].
  destruct r as [|d r'].
  - destruct f as [|f']; [cbn in Hf; lia|]. cbn [lex_loop]. rewrite H1, H2, H3, H4, H5, H6, H7, H8. cbn [negb]. rewrite !andb_false_r. cbn iota. rewrite Hk. reflexivity.
  - cbn [head_is] in Hr. destruct Hr as [Hn Hg]. unfold guard1 in Hg. apply andb_true_iff in Hg. destruct Hg as [Hg12 G3].
    apply andb_true_iff in Hg12. destruct Hg12 as [G1 G2]. apply negb_true_iff in G1, G2, G3.
    cbn [lex_loop]. rewrite H1, H2, H3, H4, H5, H6, H7, H8, G1, G2, G3. cbn [negb]. cbn iota. rewrite Hn, Hk. reflexivity.
Qed.

Lemma punct2_step_g c d ty r f acc : punct_char c = true -> lookup_kw [c; d] keyword_table = Some ty ->
  lex_loop (S f) (c :: d :: r) acc = lex_loop f r (acc ++ [(ty, [c; d])]).
Proof.
  intros Hc Hk. destruct (punct_facts c Hc) as [H1 [H2 [H3 [H4 [H5 [H6 [H7 H8]]]]]]].
  pose proof (lookup_in _ _ _ Hk) as Hin. pose proof kw_table_guard as G. rewrite forallb_forall in G. specialize (G _ Hin).
  unfold kw_guard in G. cbn [fst] in G. apply andb_true_iff in G. destruct G as [_ G].
  apply andb_true_iff in G. destruct G as [G12 G3]. apply andb_true_iff in G12. destruct G12 as [G1 G2].
  apply negb_true_iff in G1, G2, G3.
  cbn [lex_loop]. rewrite H1, H2, H3, H4, H5, H6, H7, H8, G1, G2, G3. cbn [negb]. cbn iota. rewrite Hk. reflexivity.
Qed.

Lemma num_follow_facts d : num_follow d = true ->
  is_digit_b d = false /\ is_letter_b d = false /\ byte_eqb d "_"%byte = false /\ byte_eqb d "e"%byte = false /\ byte_eqb d "E"%byte = false /\
  byte_eqb d "."%byte = false /\ is_value_rune d = false.
Proof. destruct d; intro H; try discriminate H; repeat split; reflexivity. Qed.

Lemma num_step_g ds r f acc : digits_ok ds -> head_is (fun d => num_follow d = true) r -> (length r < f)%nat ->
  lex_loop (S f) (ds ++ r) acc = lex_loop f r (acc ++ [(TNumber, ds)]).
Proof.
  intros Hd Hr Hf. destruct ds as [|c t]; [contradiction|]. destruct Hd as [Hc [Ht Hz]].
  destruct (digit_facts c Hc) as [H1 [H2 [H3 [H4 [H5 [H6 H7]]]]]].
  cbn [app lex_loop]. rewrite H1, H2, H3, H4, H5, H6, H7, Hc. cbn [negb andb].
  change (c :: t ++ r) with ((c :: t) ++ r).
  destruct r as [|d r'].
  - rewrite app_nil_r. rewrite (span_stop is_digit_b (c :: t) [] (digits_all c t Hc Ht) I) || (rewrite <- (app_nil_r (c :: t)) at 1; rewrite (span_stop is_digit_b (c :: t) [] (digits_all c t Hc Ht) I)).
    assert (Hlead : (byte_eqb c "0"%byte && match c :: t with [_] => false | _ => true end) = false).
    { destruct (byte_eqb c "0"%byte) eqn:E0; [|reflexivity]. rewrite (Hz eq_refl). reflexivity. }
    rewrite Hlead. destruct f as [|f']; [cbn in Hf; lia|]. reflexivity.
  - cbn [head_is] in Hr. destruct (num_follow_facts d Hr) as [N1 [N2 [N3 [N4 [N5 [N6 N7]]]]]].
    rewrite (span_stop is_digit_b (c :: t) (d :: r') (digits_all c t Hc Ht) N1).
    assert (Hlead : (byte_eqb c "0"%byte && match c :: t with [_] => is_letter_b d || byte_eqb d "_"%byte | _ => true end) = false).
    { destruct (byte_eqb c "0"%byte) eqn:E0; [|reflexivity]. rewrite (Hz eq_refl). cbn. rewrite N2, N3. reflexivity. }
    rewrite Hlead. rewrite N3, N4, N5, N6. cbn [orb]. unfold scan_unit. rewrite N7. reflexivity.
Qed.

Lemma scan_unit_dur_g ds u r : In u duration_units -> head_is (fun d => is_value_rune d = false) r -> (length ds <= 9)%nat ->
  scan_unit ds false (u ++ r) = UOk TDuration (ds ++ u) r.
Proof.
  intros Hu Hr Hl.
  assert (Hlen : (Z.of_nat (length ds) <=? 9) = true) by (apply Z.leb_le; lia).
  destruct r as [|d r'].
  - cbn in Hu. repeat (destruct Hu as [<-|Hu]; [unfold scan_unit; cbn; rewrite ?Hlen; rewrite ?app_nil_r; reflexivity|]). contradiction.
  - cbn [head_is] in Hr.
    assert (Hsu : is_unit_rune d = false).
    { unfold is_value_rune in Hr. apply orb_false_iff in Hr. destruct Hr as [_ Hr]. exact Hr. }
    cbn in Hu. repeat (destruct Hu as [<-|Hu]; [unfold scan_unit; cbn [app span is_value_rune is_unit_rune is_duration_rune is_bytes_rune existsb byte_eqb is_digit_b bz orb andb negb]; cbn; rewrite ?Hr, ?Hsu; cbn; rewrite ?Hlen; reflexivity|]).
    contradiction.
Qed.

Lemma dur_step_g ds u r f acc : digits_ok ds -> match ds with c :: _ => byte_eqb c "0"%byte = false | [] => False end ->
  (length ds <= 9)%nat -> In u duration_units -> head_is (fun d => is_value_rune d = false) r ->
  lex_loop (S f) ((ds ++ u) ++ r) acc = lex_loop f r (acc ++ [(TDuration, ds ++ u)]).
Proof.
  intros Hd Hnz Hl Hu Hr. destruct ds as [|c t]; [contradiction|]. destruct Hd as [Hc [Ht _]].
  destruct (digit_facts c Hc) as [H1 [H2 [H3 [H4 [H5 [H6 H7]]]]]].
  rewrite <- app_assoc. cbn [app lex_loop]. rewrite H1, H2, H3, H4, H5, H6, H7, Hc. cbn [negb andb].
  change (c :: t ++ u ++ r) with ((c :: t) ++ (u ++ r)).
  assert (Hu0 : match u ++ r with [] => True | b :: _ => is_digit_b b = false end).
  { cbn in Hu. repeat (destruct Hu as [<-|Hu]; [reflexivity|]). contradiction. }
  rewrite (span_stop is_digit_b (c :: t) (u ++ r) (digits_all c t Hc Ht) Hu0).
  rewrite Hnz. cbn [andb].
  pose proof (scan_unit_dur_g (c :: t) u r Hu Hr Hl) as Hsc.
  assert (Hd1 : match u ++ r with
                | d :: r1 => (byte_eqb d "_"%byte || byte_eqb d "e"%byte || byte_eqb d "E"%byte) = false /\ byte_eqb d "."%byte = false
                | [] => False end).
  { cbn in Hu. repeat (destruct Hu as [<-|Hu]; [split; reflexivity|]). contradiction. }
  destruct (u ++ r) as [|d r1] eqn:Er; [contradiction|]. destruct Hd1 as [D1 D2]. rewrite D1, D2. rewrite Hsc. reflexivity.
Qed.

Lemma fun_step_g w ty ws d r f acc : is_valid_label w = true -> lookup_kw w keyword_table = Some ty -> is_function ty = true ->
  is_sep ws = true -> keep_char d = true -> (ws = [] -> ident_rune d = false) ->
  lex_loop (S f) (w ++ ws ++ d :: r) acc = lex_loop f (d :: r) (acc ++ [(ty, w)]).
Proof.
  intros Hw E Ef Hws Hd Htight. unfold is_valid_label in Hw. destruct w as [|c t]; [discriminate|].
  apply andb_true_iff in Hw. destruct Hw as [Hc Hall].
  destruct (ident_start_facts c Hc) as [H1 [H2 [H3 [H4 [H5 [H6 [H7 [H8 [H9 H10]]]]]]]]].
  cbn [app lex_loop]. rewrite H1, H2, H3, H4, H5, H6, H7, H8, H9, H10. cbn [negb andb]. rewrite Hc.
  change (c :: t ++ ws ++ d :: r) with ((c :: t) ++ (ws ++ d :: r)).
  assert (Hhead : match ws ++ d :: r with [] => True | b :: _ => ident_rune b = false end).
  { destruct ws as [|sp ws']; [apply Htight; reflexivity|]. unfold is_sep in Hws. cbn [sep_scan] in Hws. cbn [app].
    destruct (is_space_b sp) eqn:Es; [apply space_not_ident; exact Es|]. destruct (byte_eqb sp "#"%byte) eqn:Eh; [|discriminate].
    apply byte_eqb_eq in Eh. subst sp. reflexivity. }
  rewrite (span_stop ident_rune (c :: t) (ws ++ d :: r) Hall Hhead).
  rewrite E, Ef. cbv zeta.
  rewrite (skip_wsc_sep_gen (length ws) ws (le_n _) Hws); [|rewrite app_length; cbn; lia|exact Hd].
  unfold keep_char in Hd. rewrite Hd. reflexivity.
Qed.

(** * layouts with optional white space *)
Fixpoint seps_ok (l : list (ltok * bytes)) : Prop :=
  match l with
  | [] => True
  | (t, ws) :: r => is_sep ws = true /\ (ws = [] -> boundary t (layout r)) /\ seps_ok r
  end.

Lemma seps_spaced l : Forall (fun x => all_space (snd x)) l -> seps_ok l.
Proof.
  induction l as [|[t ws] r IH]; intro H; [exact I|]. inversion H as [|? ? [Hne Hs] Hr]; subst. cbn [snd] in *.
  cbn [seps_ok]. split; [apply spaces_sep; exact Hs|]. split; [intro E; congruence|apply IH; exact Hr].
Qed.

Lemma boundary_rest t ws rest : is_sep ws = true -> (ws = [] -> boundary t rest) -> boundary t (ws ++ rest).
Proof.
  intros Hs Hb. destruct ws as [|sp ws']; [apply Hb; reflexivity|]. unfold is_sep in Hs. cbn [sep_scan] in Hs. cbn [app].
  destruct (is_space_b sp) eqn:Es; [apply boundary_space; exact Es|]. destruct (byte_eqb sp "#"%byte) eqn:Eh; [|discriminate].
  apply byte_eqb_eq in Eh. subst sp. apply boundary_hash.
Qed.

Lemma lex_tight_gen l : forall fuel acc, Forall (fun x => wf_ltok (fst x)) l -> seps_ok l -> fun_ok l -> (length (layout l) < fuel)%nat ->
  lex_loop fuel (layout l) acc = LexOk (acc ++ map (fun p => lres (fst p)) l).
Proof.
  induction l as [|[t ws] r IH]; intros fuel acc Hw Hsep Hfn Hf; (destruct fuel as [|f]; [lia|]).
  - cbn. rewrite app_nil_r. reflexivity.
  - inversion Hw as [|? ? Ht Hr]; subst. cbn [fst] in Ht. cbn [seps_ok] in Hsep. destruct Hsep as [Hws [Hb Hsr]].
    pose proof (fun_ok_tail _ _ _ Hfn) as Hfr.
    pose proof (boundary_rest t ws (layout r) Hws Hb) as Hbd.
    cbn [layout] in *. cbn [map fst].
    assert (Hcont : forall f' acc', (length (ws ++ layout r) < f')%nat ->
              lex_loop f' (ws ++ layout r) acc' = LexOk (acc' ++ map (fun p => lres (fst p)) r)).
    { intros f' acc' Hf'. destruct (skip_sep ws f' (layout r) acc' Hws Hf') as [f'' [Hlt ->]]. apply IH; assumption. }
    pose proof (ltext_len t Ht) as Hlen. rewrite app_length in Hf.
    destruct t as [n|ty w|ty w|v|ty w|ds|ds u|v]; cbn [wf_ltok ltext lres boundary] in *.
    + destruct Ht as [Hv Hk]. rewrite (word_step_g n _ f acc Hv Hbd), Hk. rewrite Hcont; [|lia]. rewrite <- app_assoc. reflexivity.
    + destruct Ht as [Hv [Hk Hnf]]. rewrite (word_step_g w _ f acc Hv Hbd), Hk, Hnf. rewrite Hcont; [|lia]. rewrite <- app_assoc. reflexivity.
    + destruct w as [|c [|d [|e w']]]; try contradiction; destruct Ht as [Hc Hk]; cbn [app].
      * rewrite (punct1_step_g c ty _ f acc Hc Hk Hbd); [|cbn [length] in *; lia]. rewrite Hcont; [|cbn [length] in *; lia]. rewrite <- app_assoc. reflexivity.
      * rewrite (punct2_step_g c d ty _ f acc Hc Hk). rewrite Hcont; [|cbn [length] in *; lia]. rewrite <- app_assoc. reflexivity.
    + cbn [app]. rewrite <- app_assoc. cbn [app]. rewrite (str_step v _ f acc Ht).
      rewrite Hcont; [|cbn [app length] in *; rewrite !app_length in *; cbn [length] in *; lia]. rewrite <- app_assoc. reflexivity.
    + destruct Ht as [Hv [Hk Hfun]]. cbn [fun_ok] in Hfn. destruct Hfn as [Hnext _].
      destruct r as [|[t2 ws2] r2]; [contradiction|]. unfold fun_next in Hnext. cbn [layout] in *.
      destruct (ltext t2) as [|d rest] eqn:E2; [contradiction|]. cbn [app] in *.
      assert (Htight : ws = [] -> ident_rune d = false). { intro E. specialize (Hb E). exact Hb. }
      rewrite (fun_step_g w ty ws d _ f acc Hv Hk Hfun Hws Hnext Htight).
      change (d :: rest ++ ws2 ++ layout r2) with ((d :: rest) ++ ws2 ++ layout r2).
      rewrite IH; [|exact Hr|exact Hsr|exact Hfr|repeat (rewrite app_length in * || cbn [length app] in * ); lia].
      rewrite <- app_assoc. reflexivity.
    + rewrite (num_step_g ds _ f acc Ht Hbd); [|lia]. rewrite Hcont; [|lia]. rewrite <- app_assoc. reflexivity.
    + destruct Ht as [Hd [Hnz [Hl Hu]]]. rewrite (dur_step_g ds u _ f acc Hd Hnz Hl Hu Hbd). rewrite Hcont; [|rewrite !app_length in *; lia]. rewrite <- app_assoc. reflexivity.
    + cbn [app]. rewrite <- app_assoc. cbn [app]. rewrite (raw_step v _ f acc Ht).
      rewrite Hcont; [|cbn [app length] in *; rewrite !app_length in *; cbn [length] in *; lia]. rewrite <- app_assoc. reflexivity.
Qed.



Theorem lex_layout_tight_lemma l : Forall (fun x => wf_ltok (fst x)) l -> seps_ok l -> fun_ok l ->
  lex (layout l) = LexOk (map (fun p => lres (fst p)) l).
Proof. intros H Hs Hf. unfold lex. apply (lex_tight_gen l _ [] H Hs Hf). lia. Qed.

(** the token sequence depends on the tokens only: not on the separators (white space, comments) and not on the quoting style of a
    string ("..." with escapes or a raw string; both carry the same content) *)
Corollary lex_layout_content l1 l2 :
  Forall (fun x => wf_ltok (fst x)) l1 -> Forall (fun x => wf_ltok (fst x)) l2 -> seps_ok l1 -> seps_ok l2 -> fun_ok l1 -> fun_ok l2 ->
  map (fun p => lres (fst p)) l1 = map (fun p => lres (fst p)) l2 -> lex (layout l1) = lex (layout l2).
Proof. intros W1 W2 S1 S2 F1 F2 E. rewrite (lex_layout_tight_lemma l1 W1 S1 F1), (lex_layout_tight_lemma l2 W2 S2 F2), E. reflexivity. Qed.
