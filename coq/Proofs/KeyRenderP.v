(** C08: groupEntries keys its stream map by LabelSet.String() -- "{k1=<quoted v1>,k2=<quoted v2>}" over the sorted labels,
    values through strconv.Quote -- while the model groups by the label set itself.  The two agree when the rendering is
    injective.  strconv.Quote is not modelled (its escaping depends on unicode.IsPrint); what is used of it is that it is a
    prefix code: a quoted string ends at its first unescaped quote, so no quoted string is a proper prefix of another and the
    value can be read back.  Under that hypothesis the rendering is injective on label sets whose names hold no '='. *)
From LogQLV Require Import Base.Bytes Base.LMap.
From Coq Require Import Lia.

Section KeyRender.
  Variable quote : bytes -> bytes.
  Hypothesis quote_prefix_code : forall a b r r', quote a ++ r = quote b ++ r' -> a = b /\ r = r'.

  Definition eqc : byte := "="%byte.
  Definition comma : byte := ","%byte.
  Definition lbrace : byte := "{"%byte.
  Definition rbrace : byte := "}"%byte.

  Definition render_kv (kv : bytes * bytes) : bytes := fst kv ++ eqc :: quote (snd kv).
  Fixpoint render_tail (l : list (bytes * bytes)) : bytes :=
    match l with
    | [] => [rbrace]
    | kv :: t => comma :: render_kv kv ++ render_tail t
    end.
  (** LabelSet.String() *)
  Definition render (l : list (bytes * bytes)) : bytes :=
    lbrace :: match l with [] => [rbrace] | kv :: t => render_kv kv ++ render_tail t end.

  Definition key_ok (k : bytes) : Prop := ~ In eqc k.
  Definition keys_ok (l : list (bytes * bytes)) : Prop := Forall (fun kv => key_ok (fst kv)) l.

  Lemma split_at_eq k1 : forall k2 r1 r2, key_ok k1 -> key_ok k2 -> k1 ++ eqc :: r1 = k2 ++ eqc :: r2 -> k1 = k2 /\ r1 = r2.
  Proof.
    induction k1 as [|a k1 IH]; intros [|b k2] r1 r2 H1 H2 E; cbn in E.
    - injection E as E. auto.
    - injection E as Eb E. exfalso. apply H2. left. symmetry. exact Eb.
    - injection E as Ea E. exfalso. apply H1. left. exact Ea.
    - injection E as Eab E. subst b.
      destruct (IH k2 r1 r2) as [-> ->]; [intro C; apply H1; right; exact C|intro C; apply H2; right; exact C|exact E|auto].
  Qed.

  Lemma render_kv_inj kv1 kv2 r1 r2 : key_ok (fst kv1) -> key_ok (fst kv2) ->
    render_kv kv1 ++ r1 = render_kv kv2 ++ r2 -> kv1 = kv2 /\ r1 = r2.
  Proof.
    destruct kv1 as [k1 v1], kv2 as [k2 v2]. unfold render_kv. cbn [fst snd]. intros H1 H2 E.
    rewrite <- !app_assoc in E. cbn [app] in E.
    destruct (split_at_eq k1 k2 _ _ H1 H2 E) as [-> E2].
    destruct (quote_prefix_code _ _ _ _ E2) as [-> ->]. auto.
  Qed.

  Lemma render_tail_inj l1 : forall l2, keys_ok l1 -> keys_ok l2 -> render_tail l1 = render_tail l2 -> l1 = l2.
  Proof.
    induction l1 as [|kv1 t1 IH]; intros [|kv2 t2] H1 H2 E; cbn in E.
    - reflexivity.
    - discriminate E.
    - discriminate E.
    - injection E as E. inversion H1 as [|? ? Hk1 Ht1]; inversion H2 as [|? ? Hk2 Ht2]; subst.
      destruct (render_kv_inj kv1 kv2 _ _ Hk1 Hk2 E) as [-> E2]. f_equal. apply IH; assumption.
  Qed.

  Lemma no_eq_in_close (kv : bytes * bytes) r : [rbrace] <> render_kv kv ++ r.
  Proof.
    destruct kv as [k v]. unfold render_kv. cbn [fst snd]. destruct k as [|a k]; cbn.
    - intro C. injection C as C. discriminate C.
    - intro C. injection C as _ C. destruct k; discriminate C.
  Qed.

  Theorem render_inj_lemma l1 l2 : keys_ok l1 -> keys_ok l2 -> render l1 = render l2 -> l1 = l2.
  Proof.
    intros H1 H2 E. unfold render in E. injection E as E.
    destruct l1 as [|kv1 t1], l2 as [|kv2 t2].
    - reflexivity.
    - exfalso. exact (no_eq_in_close kv2 _ E).
    - exfalso. symmetry in E. exact (no_eq_in_close kv1 _ E).
    - inversion H1 as [|? ? Hk1 Ht1]; inversion H2 as [|? ? Hk2 Ht2]; subst.
      destruct (render_kv_inj kv1 kv2 _ _ Hk1 Hk2 E) as [-> E2]. f_equal. apply render_tail_inj; assumption.
  Qed.
End KeyRender.
