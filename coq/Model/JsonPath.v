(** Model of jsonexpr.Parse (internal/logql/logqlengine/jsonexpr/jsonexpr.go): the parser of JSON path expressions
    a.b[0][k-in-quotes].  Transliterated at byte level (every byte the parser branches on is ASCII; a non-ASCII or invalid
    rune falls into the same `default` error branches as any other unexpected byte).
    strconv.Atoi is modelled for up to 18 digits, strconv.Unquote for printable-ASCII contents with the escapes backslash-quote and backslash-backslash
    (anything else: [PUnmodelled], the case is then judged on the implementation's answer alone). *)
From LogQLV Require Import Base.Bytes Base.TimeFmt Model.Parser Model.Stages.

Inductive path_result := PathOk (p : list jsel) | PathErr | PathUnmodelled.

Definition dot : byte := "."%byte.
Definition lbrack : byte := "["%byte.
Definition rbrack : byte := "]"%byte.
Definition dquote : byte := """"%byte.
Definition bslash : byte := "\"%byte.

(** scanField: the longest prefix of identifier bytes; it must start with a letter or underscore *)
Fixpoint span_ident (s : bytes) : bytes * bytes :=
  match s with
  | b :: t => if ident_rune b then let '(a, r) := span_ident t in (b :: a, r) else ([], s)
  | [] => ([], [])
  end.
Definition scan_field (s : bytes) : option (bytes * bytes) :=
  let '(f, r) := span_ident s in
  match f with
  | b :: _ => if ident_start b then Some (f, r) else None
  | [] => None
  end.

(** scanInteger: digits, then strconv.Atoi *)
Inductive int_result := IntOk (n : Z) (rest : bytes) | IntErr | IntUnmodelled.
Definition scan_integer (s : bytes) : int_result :=
  let '(ds, r) := span_digits s in
  match ds with
  | [] => IntErr
  | _ => if (18 <? Z.of_nat (length ds)) then IntUnmodelled
         else match parse_uint_acc ds 0 with Some n => IntOk n r | None => IntErr end
  end.

(** scanString: input starts at the opening quote; find the closing quote, skipping escaped characters
    (since the fix of D31 every escaped character is skipped, not only an escaped quote) *)
Fixpoint find_close (fuel : nat) (s : bytes) (acc : bytes) : option (bytes * bytes) :=
  (* s: what follows the opening quote; returns (content between the quotes, rest after the closing quote);
     None: no closing quote -- the whole rest goes to Unquote, which fails *)
  match fuel with
  | O => None
  | S f =>
    match s with
    | [] => None
    | c :: t =>
        if byte_eqb c bslash then
          match t with
          | [] => None
          | d :: t' => find_close f t' (acc ++ [c; d])
          end
        else if byte_eqb c dquote then Some (acc, t)
        else find_close f t (acc ++ [c])
    end
  end.

(** strconv.Unquote of the quoted content on the modelled fragment *)
Fixpoint unquote_simple (s : bytes) : option (option bytes) :=
  (* Some (Some v): value; Some None: Unquote fails; None: outside the fragment *)
  match s with
  | [] => Some (Some [])
  | c :: t =>
      if byte_eqb c bslash then
        match t with
        | d :: t' => if byte_eqb d dquote || byte_eqb d bslash
                     then match unquote_simple t' with Some (Some v) => Some (Some (d :: v)) | r => r end
                     else None
        | [] => Some None
        end
      else if (32 <=? bz c) && (bz c <=? 126) then
        match unquote_simple t with Some (Some v) => Some (Some (c :: v)) | r => r end
      else None
  end.

Inductive str_result := StrOk (k : bytes) (rest : bytes) | StrErr | StrUnmodelled.
Definition scan_string (s : bytes) : str_result :=
  match s with
  | q :: t =>
      match find_close (S (length t)) t [] with
      | None => StrErr
      | Some (content, rest) =>
          match unquote_simple content with
          | Some (Some v) => StrOk v rest
          | Some None => StrErr
          | None => StrUnmodelled
          end
      end
  | [] => StrErr
  end.

Fixpoint parse_path_loop (fuel : nat) (s : bytes) (acc : list jsel) : path_result :=
  match fuel with
  | O => PathErr
  | S f =>
    let continue_ (acc' : list jsel) (rest : bytes) :=
      match rest with [] => PathOk acc' | _ => parse_path_loop f rest acc' end in
    match s with
    | [] => PathErr                                           (* io.ErrUnexpectedEOF *)
    | b :: t =>
        if byte_eqb b dot then
          match scan_field t with Some (fld, r) => continue_ (acc ++ [JKey fld]) r | None => PathErr end
        else if ident_start b then
          match scan_field s with Some (fld, r) => continue_ (acc ++ [JKey fld]) r | None => PathErr end
        else if byte_eqb b lbrack then
          match t with
          | [] => PathErr
          | c :: _ =>
              if is_digit_b c then
                match scan_integer t with
                | IntOk n r => match r with
                               | e :: r' => if byte_eqb e rbrack then continue_ (acc ++ [JIdx n]) r' else PathErr
                               | [] => PathErr
                               end
                | IntErr => PathErr
                | IntUnmodelled => PathUnmodelled
                end
              else if byte_eqb c dquote then
                match scan_string t with
                | StrOk k r => match r with
                               | e :: r' => if byte_eqb e rbrack then continue_ (acc ++ [JKey k]) r' else PathErr
                               | [] => PathErr
                               end
                | StrErr => PathErr
                | StrUnmodelled => PathUnmodelled
                end
              else PathErr
          end
        else PathErr
    end
  end.

Definition parse_path (s : bytes) : path_result := parse_path_loop (S (length s)) s [].
