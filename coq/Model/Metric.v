(** Model of internal/logql/logqlengine/logqlmetric and of the metric half of the engine:
    aggregated labels and grouping keys, the sampler, range aggregation (stepper, window fill / clear,
    batch aggregators), vector aggregation (streaming aggregators, bounded heap for topk/bottomk/sort),
    binary operations, build and ReadStepResponse.  Floats are Coq primitive binary64 floats. *)
From LogQLV Require Import Base.Bytes Base.FloatX Base.LMap Base.Heap Base.Units Model.Tables Model.Flags Model.Stages Model.Engine.

(** * Aggregated labels (aggregated_labels.go, after the fixes of D6 D7 D9 D10 D21) *)
Record alabels := { al_entries : lmap; al_without : list bytes; al_by : option (list bytes) }.

Definition bmem (k : bytes) (l : list bytes) : bool := existsb (bytes_eqb k) l.

(** forEach: the labels that are visible through the without / by restrictions *)
Definition visible (a : alabels) : lmap :=
  lfilter (fun k _ => negb (bmem k (al_without a)) && match al_by a with None => true | Some b => bmem k b end) (al_entries a).

(** By: a later by clause intersects with an earlier one; an empty list keeps nothing *)
Definition al_by_op (L : list bytes) (a : alabels) : alabels :=
  {| al_entries := al_entries a; al_without := al_without a;
     al_by := Some (match al_by a with None => L | Some b => filter (fun l => bmem l b) L end) |}.
(** Without: an empty list is a no-op *)
Definition al_without_op (L : list bytes) (a : alabels) : alabels :=
  match L with
  | [] => a
  | _ => {| al_entries := al_entries a; al_without := al_without a ++ L; al_by := al_by a |}
  end.
Definition empty_al : alabels := {| al_entries := []; al_without := []; al_by := None |}.

(** before D9 / D10: an empty by list was no restriction and nested by lists were united *)
Definition al_by_op_prefix (L : list bytes) (a : alabels) : alabels :=
  match L with
  | [] => a
  | _ => {| al_entries := al_entries a; al_without := al_without a;
            al_by := Some (match al_by a with None => L | Some b => b ++ L end) |}
  end.

(** Key(): xxhash of the serialisation of the visible set; the hash is abstracted by its argument
    (theorems about series identity assume it injective on the serialisations that occur) *)
Definition le64 (n : Z) : bytes :=
  map (fun i => Flags.byte_of_Z' ((n / 256 ^ i) mod 256)) [0; 1; 2; 3; 4; 5; 6; 7].
Definition ser_string (s : bytes) : bytes := le64 (Z.of_nat (length s)) ++ s.
Definition serialise (m : lmap) : bytes := flat_map (fun kv => ser_string (fst kv) ++ ser_string (snd kv)) m.
(** before D7: names and values concatenated without delimiters *)
Definition serialise_prefix (m : list (bytes * bytes)) : bytes := flat_map (fun kv => fst kv ++ snd kv) m.

Definition key_of (a : alabels) : lmap := visible a.          (* the key as an abstract value: the visible set *)

(** grouping clause of an aggregation *)
Inductive grouping := GNone | GBy (l : list bytes) | GWithout (l : list bytes).

(** * Samples and steps *)
Record sentry := { se_ts : Z; se_val : float; se_set : alabels }.     (* SampledEntry *)
Definition sample := (float * alabels)%type.                          (* Sample: Data, Set *)
Record step := { st_ts : Z; st_samples : list sample }.

(** * Streaming aggregators (stream_aggregator.go) *)
Inductive aggkind := ASum | AAvg | ACount | AMax | AMin | AStdvar | AStddev.
Record aggstate := { g_sum : float; g_avg : float; g_count : float; g_n : Z; g_ext : float; g_set : bool; g_m2 : float; g_mean : float }.
Definition agg_init : aggstate := {| g_sum := zero; g_avg := zero; g_count := zero; g_n := 0; g_ext := zero; g_set := false; g_m2 := zero; g_mean := zero |}.

Definition fgt (a b : float) : bool := PrimFloat.ltb b a.
Definition is_inf (f : float) : bool := is_infinity f.

Definition agg_apply (k : aggkind) (a : aggstate) (v : float) : aggstate :=
  match k with
  | ASum => {| g_sum := PrimFloat.add (g_sum a) v; g_avg := g_avg a; g_count := g_count a; g_n := g_n a; g_ext := g_ext a; g_set := g_set a; g_m2 := g_m2 a; g_mean := g_mean a |}
  | AAvg =>
      let skip :=
        if is_inf (g_avg a) then
          if is_inf v then Bool.eqb (fgt (g_avg a) zero) (fgt v zero)
          else negb (is_nan v)
        else false in
      if skip then a else
      let c := PrimFloat.add (g_count a) one in
      {| g_sum := g_sum a; g_avg := PrimFloat.add (g_avg a) (PrimFloat.div (PrimFloat.sub v (g_avg a)) c); g_count := c; g_n := g_n a; g_ext := g_ext a;
         g_set := g_set a; g_m2 := g_m2 a; g_mean := g_mean a |}
  | ACount => {| g_sum := g_sum a; g_avg := g_avg a; g_count := g_count a; g_n := g_n a + 1; g_ext := g_ext a; g_set := g_set a; g_m2 := g_m2 a; g_mean := g_mean a |}
  | AMax =>
      if negb (g_set a) || fgt v (g_ext a) || is_nan v
      then {| g_sum := g_sum a; g_avg := g_avg a; g_count := g_count a; g_n := g_n a; g_ext := v; g_set := true; g_m2 := g_m2 a; g_mean := g_mean a |} else a
  | AMin =>
      if negb (g_set a) || PrimFloat.ltb v (g_ext a) || is_nan v
      then {| g_sum := g_sum a; g_avg := g_avg a; g_count := g_count a; g_n := g_n a; g_ext := v; g_set := true; g_m2 := g_m2 a; g_mean := g_mean a |} else a
  | AStdvar | AStddev =>
      let c := PrimFloat.add (g_count a) one in
      let delta := PrimFloat.sub v (g_mean a) in
      let mean := PrimFloat.add (g_mean a) (PrimFloat.div delta c) in
      let delta2 := PrimFloat.sub v mean in
      {| g_sum := g_sum a; g_avg := g_avg a; g_count := c; g_n := g_n a; g_ext := g_ext a; g_set := g_set a;
         g_m2 := PrimFloat.add (g_m2 a) (PrimFloat.mul delta delta2); g_mean := mean |}
  end.

Definition agg_result (k : aggkind) (a : aggstate) : float :=
  match k with
  | ASum => g_sum a
  | AAvg => g_avg a
  | ACount => float_of_Z (g_n a)
  | AMax | AMin => g_ext a
  | AStdvar => PrimFloat.div (g_m2 a) (g_count a)
  | AStddev => PrimFloat.sqrt (PrimFloat.div (g_m2 a) (g_count a))
  end.

Definition agg_list (k : aggkind) (vs : list float) : float := agg_result k (fold_left (agg_apply k) vs agg_init).

(** * Batch aggregators of range aggregations (aggregator.go, prom_math.go) *)
Inductive rangeop := RCount | RRate | RBytes | RBytesRate | RAvg | RSum | RMin | RMax | RStdvar | RStddev | RQuantile | RFirst | RLast.

(** time.Duration.Seconds() *)
Definition dur_seconds (ns : Z) : float :=
  PrimFloat.add (float_of_Z (Z.quot ns 1000000000)) (PrimFloat.div (float_of_Z (Z.rem ns 1000000000)) (float_of_Z 1000000000)).

Definition floor_f (f : float) : float :=
  match floor_Z f with
  | Some z => if z =? 0 then (if is_zero f then f else zero) else float_of_Z z
  | None => f
  end.
Definition fmin (a b : float) : float :=
  if is_nan a || is_nan b then nan
  else if is_infinity a && get_sign a then a
  else if is_infinity b && get_sign b then b
  else if is_zero a && is_zero b then (if get_sign a then a else b)
  else if PrimFloat.ltb a b then a else b.

Fixpoint insert_f (x : float) (l : list float) : list float :=
  match l with
  | [] => [x]
  | y :: t => if PrimFloat.ltb x y then x :: l else y :: insert_f x t
  end.
Definition sort_f (l : list float) : list float := fold_right insert_f [] l.

(** quantile(q, values); index conversions are int(float) on values that are exact small integers *)
Definition quantile (q : float) (vs : list float) : float :=
  match vs with
  | [] => nan
  | _ =>
    if is_nan q then nan
    else if PrimFloat.ltb q zero then neg_infinity
    else if fgt q one then infinity
    else
      let s := sort_f vs in
      let n := float_of_Z (Z.of_nat (length vs)) in
      let rank := PrimFloat.mul q (PrimFloat.sub n one) in
      let lower := fmax zero (floor_f rank) in
      let upper := fmin (PrimFloat.sub n one) (PrimFloat.add lower one) in
      let weight := PrimFloat.sub rank (floor_f rank) in
      let lo := nth (Z.to_nat (go_int64 lower)) s nan in
      let up := nth (Z.to_nat (go_int64 upper)) s nan in
      PrimFloat.add (PrimFloat.mul lo (PrimFloat.sub one weight)) (PrimFloat.mul up weight)
  end.

Definition batch_agg (op : rangeop) (unwrapped : bool) (range_ns : Z) (param : float) (vs : list float) : float :=
  match op with
  | RCount => float_of_Z (Z.of_nat (length vs))
  | RRate => if unwrapped then PrimFloat.div (agg_list ASum vs) (dur_seconds range_ns)
             else PrimFloat.div (float_of_Z (Z.of_nat (length vs))) (dur_seconds range_ns)
  | RBytes => agg_list ASum vs
  | RBytesRate => PrimFloat.div (agg_list ASum vs) (dur_seconds range_ns)
  | RAvg => agg_list AAvg vs
  | RSum => agg_list ASum vs
  | RMin => agg_list AMin vs
  | RMax => agg_list AMax vs
  | RStdvar => agg_list AStdvar vs
  | RStddev => agg_list AStddev vs
  | RQuantile => quantile param vs
  | RFirst => match vs with [] => zero | v :: _ => v end
  | RLast => last vs zero
  end.

(** * Range aggregation (range_agg.go, after the fixes of D4 D5 D16) *)
(** window: series in insertion order, each with its points in arrival order *)
Definition wseries := (lmap * (alabels * list (Z * float)))%type.

Fixpoint win_add (w : list wseries) (key : lmap) (metric : alabels) (p : Z * float) : list wseries :=
  match w with
  | [] => [(key, (metric, [p]))]
  | (k, (m, ps)) :: t => if lmap_eqb k key then (k, (m, ps ++ [p])) :: t else (k, (m, ps)) :: win_add t key metric p
  end.

(** clearWindow: keep points with ts >= windowStart, delete series that become empty *)
Definition win_clear (ws : Z) (w : list wseries) : list wseries :=
  filter (fun s => negb (Nat.eqb (length (snd (snd s))) 0))
         (map (fun s => (fst s, (fst (snd s), filter (fun p => ws <=? fst p) (snd (snd s))))) w).
(** before D4: points with ts = windowStart were evicted although fillWindow admits them *)
Definition win_clear_prefix (ws : Z) (w : list wseries) : list wseries :=
  filter (fun s => negb (Nat.eqb (length (snd (snd s))) 0))
         (map (fun s => (fst s, (fst (snd s), filter (fun p => ws <? fst p) (snd (snd s))))) w).

Definition apply_grouping (g : grouping) (a : alabels) : alabels :=
  match g with GNone => a | GBy l => al_by_op l a | GWithout l => al_without_op l a end.

(** fillWindow: consume entries up to windowEnd; the first entry beyond it stays buffered (= head of the rest) *)
Fixpoint win_fill (g : grouping) (ws we : Z) (w : list wseries) (rest : list sentry) : list wseries * list sentry :=
  match rest with
  | [] => (w, [])
  | e :: t =>
    if we <? se_ts e then (w, rest)
    else if se_ts e <? ws then win_fill g ws we w t
    else let metric := apply_grouping g (se_set e) in
         win_fill g ws we (win_add w (key_of metric) metric (se_ts e, se_val e)) t
  end.

Record rstate := { rs_window : list wseries; rs_rest : list sentry }.

(** one Next of rangeAggIterator at evaluation time T *)
Definition range_next (clear : Z -> list wseries -> list wseries) (agg : list float -> float) (g : grouping) (range offset : Z) (T : Z) (s : rstate) : rstate * step :=
  let we := T - offset in
  let ws := we - range in
  let '(w, rest) := win_fill g ws we (clear ws (rs_window s)) (rs_rest s) in
  ({| rs_window := w; rs_rest := rest |},
   {| st_ts := T; st_samples := map (fun sr => (agg (map snd (snd (snd sr))), fst (snd sr))) w |}).

(** the evaluation grid: start, start+step, ... <= end   (stepper; step > 0) *)
Fixpoint grid_from (fuel : nat) (t e stp : Z) : list Z :=
  match fuel with
  | O => []
  | S f => if e <? t then [] else t :: grid_from f (t + stp) e stp
  end.
(** with step 0 the stepper never advances: one step for an instant query (ReadStepResponse returns after it);
    for start < end the real loop does not terminate, which is why a positive step is a precondition (C16 / C17) *)
Definition grid (start e stp : Z) : list Z :=
  if stp <=? 0 then (if start =? e then [start] else []) else grid_from (Z.to_nat ((e - start) / stp + 1)) start e stp.

Fixpoint range_run (clear : Z -> list wseries -> list wseries) (agg : list float -> float) (g : grouping) (range offset : Z) (ts : list Z) (s : rstate) : list step :=
  match ts with
  | [] => []
  | T :: rest => let '(s', st) := range_next clear agg g range offset T s in st :: range_run clear agg g range offset rest s'
  end.

(** * Sampler (sampler.go) *)
Inductive conv := CvFloat | CvBytes | CvDuration.
Record unwrap := { u_label : bytes; u_conv : conv; u_filters : list (bytes * strm) }.

Definition convert (c : conv) (s : bytes) : option float :=      (* None = outside the modelled fragment *)
  match c with
  | CvFloat => match parse_float s with PF f => Some f | PFErr => Some zero | PFUnmodelled => None end
  | CvBytes => match humanize_bytes s with VOk b => Some (float_of_Z b) | VErr => Some zero | VUnmodelled => None end
  | CvDuration =>
      if negb (forallb (fun b => bz b <? 128) s) then None else
      match go_parse_duration s with Some d => Some (dur_seconds d) | None => Some zero end
  end.

(** sample of one entry: Some None = no sample; None = outside fragment *)
Definition sample_of (op : rangeop) (u : option unwrap) (e : entry) : option (option float) :=
  match op, u with
  | RCount, _ => Some (Some one)
  | RRate, _ => Some (Some one)          (* buildSampleExtractor counts lines for rate even when an unwrap is given *)
  | RBytes, _ | RBytesRate, _ => Some (Some (float_of_Z (Z.of_nat (length (e_line e)))))
  | _, Some uw =>
      match lget (e_set e) (u_label uw) with
      | None => Some None
      | Some v =>
        match convert (u_conv uw) v with
        | None => None
        | Some f => if forallb (fun km => str_match true (snd km) (lget_or_empty (e_set e) (fst km))) (u_filters uw) then Some (Some f) else Some None
        end
      end
  | _, None => None
  end.

(** labels of a sample: the range aggregation's own grouping is pre-applied (newAggregatedLabels(set, by, without)) *)
Definition sample_labels (g : grouping) (ls : lmap) : alabels :=
  match g with
  | GNone => {| al_entries := ls; al_without := []; al_by := None |}
  | GBy l => {| al_entries := ls; al_without := []; al_by := Some l |}
  | GWithout l => {| al_entries := ls; al_without := l; al_by := None |}
  end.

Fixpoint sample_entries (op : rangeop) (u : option unwrap) (g : grouping) (es : list entry) : option (list sentry) :=
  match es with
  | [] => Some []
  | e :: t =>
    match sample_of op u e, sample_entries op u g t with
    | Some (Some v), Some r => Some ({| se_ts := e_ts e; se_val := v; se_set := sample_labels g (e_set e) |} :: r)
    | Some None, Some r => Some r
    | _, _ => None
    end
  end.

(** * Vector aggregation (vector_agg.go, after the fixes of D8 D16) *)
Inductive vecop := VSum | VAvg | VCount | VMax | VMin | VStddev | VStdvar | VBottomk | VTopk | VSort | VSortDesc.

Definition vec_grouping (g : grouping) (a : alabels) : alabels :=
  match g with GNone => empty_al | GBy l => al_by_op l a | GWithout l => al_without_op l a end.
(** before D8: no clause meant no grouping at all *)
Definition vec_grouping_prefix (g : grouping) (a : alabels) : alabels :=
  match g with GNone => a | GBy l => al_by_op_prefix l a | GWithout l => al_without_op l a end.

Definition vgroup := (lmap * (alabels * aggstate))%type.
Fixpoint vg_apply (k : aggkind) (gs : list vgroup) (key : lmap) (metric : alabels) (v : float) : list vgroup :=
  match gs with
  | [] => [(key, (metric, agg_apply k agg_init v))]
  | (k0, (m, a)) :: t => if lmap_eqb k0 key then (k0, (m, agg_apply k a v)) :: t else (k0, (m, a)) :: vg_apply k t key metric v
  end.

Definition kind_of (op : vecop) : aggkind :=
  match op with VSum => ASum | VAvg => AAvg | VCount => ACount | VMax => AMax | VMin => AMin | VStddev => AStddev | _ => AStdvar end.

Definition vagg_step (grp : grouping -> alabels -> alabels) (op : vecop) (g : grouping) (s : step) : step :=
  let k := kind_of op in
  let gs := fold_left (fun gs (sm : sample) => let metric := grp g (snd sm) in vg_apply k gs (key_of metric) metric (fst sm)) (st_samples s) [] in
  {| st_ts := st_ts s; st_samples := map (fun gr => (agg_result k (snd (snd gr)), fst (snd gr))) gs |}.

(** Sample.Less / Sample.Greater *)
Definition s_less (a b : sample) : bool := is_nan (fst a) || PrimFloat.ltb (fst a) (fst b).
Definition s_greater (a b : sample) : bool := is_nan (fst a) || fgt (fst a) (fst b).

Definition hgroup := (lmap * list sample)%type.
Definition dummy_sample : sample := (zero, empty_al).

Definition heap_offer (less greater : sample -> sample -> bool) (limit : Z) (h : list sample) (s : sample) : list sample :=
  if limit <? 0 then h ++ [s]
  else if Z.of_nat (length h) <? limit then heap_push greater dummy_sample h s
  else if less s (get dummy_sample h 0)
       then match heap_pop greater dummy_sample h with Some (_, h') => heap_push greater dummy_sample h' s | None => h end
       else h.

Fixpoint hg_offer (less greater : sample -> sample -> bool) (limit : Z) (gs : list hgroup) (key : lmap) (s : sample) : list hgroup :=
  match gs with
  | [] => [(key, heap_offer less greater limit [] s)]
  | (k0, h) :: t => if lmap_eqb k0 key then (k0, heap_offer less greater limit h s) :: t else (k0, h) :: hg_offer less greater limit t key s
  end.

Fixpoint insert_s (less : sample -> sample -> bool) (x : sample) (l : list sample) : list sample :=
  match l with
  | [] => [x]
  | y :: t => if less x y then x :: l else y :: insert_s less x t
  end.
(** slices.SortFunc with the less-only comparator: any sort that is stable w.r.t. [less] gives this order on distinct values *)
Definition sort_s (less : sample -> sample -> bool) (l : list sample) : list sample := fold_right (insert_s less) [] l.

Definition vheap_step (grp : grouping -> alabels -> alabels) (op : vecop) (limit : Z) (g : grouping) (s : step) : step :=
  let '(less, greater) := match op with VBottomk | VSort => (s_less, s_greater) | _ => (s_greater, s_less) end in
  if limit =? 0 then {| st_ts := st_ts s; st_samples := [] |} else
  let gs := fold_left (fun gs (sm : sample) => hg_offer less greater limit gs (key_of (grp g (snd sm))) sm) (st_samples s) [] in
  {| st_ts := st_ts s; st_samples := flat_map (fun gr => sort_s less (snd gr)) gs |}.

(** * Binary operations (bin_op.go, sample_op.go) *)
Definition fmod_go (x y : float) : option float :=      (* math.Mod on the exactly representable fragment: integers below 2^53 *)
  match trunc_Z x, trunc_Z y with
  | Some a, Some b =>
      if PrimFloat.eqb (float_of_Z a) x && PrimFloat.eqb (float_of_Z b) y && negb (b =? 0) && (Z.abs a <? 9007199254740992) && (Z.abs b <? 9007199254740992)
      then Some (let r := float_of_Z (Z.rem a b) in if (Z.rem a b =? 0) && get_sign x then neg_zero else r) else None
  | _, _ => None
  end.
Definition fpow_go (x y : float) : option float :=      (* math.Pow for small non-negative integer exponents with exact products *)
  match trunc_Z x, trunc_Z y with
  | Some a, Some b =>
      (* the power is computed only once the exponent is known to be small (evaluation is eager) *)
      if PrimFloat.eqb (float_of_Z a) x && PrimFloat.eqb (float_of_Z b) y && (0 <=? b) && (b <=? 64)
      then (if Z.abs (a ^ b) <? 9007199254740992 then Some (float_of_Z (a ^ b)) else None) else None
  | _, _ => None
  end.

(** result: Some (value, keep); None = outside the fragment of a library function *)
Definition sample_op (op : binop) (retbool : bool) (l r : float) : option (float * bool) :=
  let boolop (v : bool) := if v then Some (one, true) else Some (zero, negb retbool) in
  match op with
  | OpAdd => Some (PrimFloat.add l r, true)
  | OpSub => Some (PrimFloat.sub l r, true)
  | OpMul => Some (PrimFloat.mul l r, true)
  | OpDiv => Some (if negb (PrimFloat.eqb r zero) then PrimFloat.div l r else nan, true)
  | OpMod => if PrimFloat.eqb r zero then Some (nan, true) else match fmod_go l r with Some v => Some (v, true) | None => None end
  | OpPow => match fpow_go l r with Some v => Some (v, true) | None => None end
  | OpEq => boolop (PrimFloat.eqb l r)
  | OpNotEq => boolop (negb (PrimFloat.eqb l r))
  | OpGt => boolop (fgt l r)
  | OpGte => boolop (PrimFloat.leb r l)
  | OpLt => boolop (PrimFloat.ltb l r)
  | OpLte => boolop (PrimFloat.leb l r)
  | _ => None
  end.

Definition find_sample (key : lmap) (l : list sample) : option sample :=
  (* leftSamples map: the LAST left sample with this key wins *)
  fold_left (fun acc s => if lmap_eqb (key_of (snd s)) key then Some s else acc) l None.

Fixpoint opt_seq {A} (l : list (option A)) : option (list A) :=
  match l with
  | [] => Some []
  | None :: _ => None
  | Some x :: t => match opt_seq t with Some r => Some (x :: r) | None => None end
  end.

Definition binop_step (op : binop) (retbool : bool) (l r : step) : option step :=
  match opt_seq (map (fun rs : sample =>
                        match find_sample (key_of (snd rs)) (st_samples l) with
                        | None => Some None
                        | Some ls => match sample_op op retbool (fst ls) (fst rs) with
                                     | Some (v, true) => Some (Some (v, snd ls))
                                     | Some (_, false) => Some None
                                     | None => None
                                     end
                        end) (st_samples r)) with
  | Some l' => Some {| st_ts := st_ts l; st_samples := flat_map (fun o => match o with Some x => [x] | None => [] end) l' |}
  | None => None
  end.

Definition has_key (key : lmap) (l : list sample) : bool := existsb (fun s => lmap_eqb (key_of (snd s)) key) l.

Definition merge_step (op : binop) (l r : step) : step :=
  let ls := st_samples l in let rs := st_samples r in
  {| st_ts := st_ts l;
     st_samples :=
       match op with
       | OpAnd => match ls, rs with [], _ | _, [] => [] | _, _ => filter (fun s => has_key (key_of (snd s)) rs) ls end
       | OpOr => match ls, rs with [], _ => rs | _, [] => ls | _, _ => ls ++ filter (fun s => negb (has_key (key_of (snd s)) ls)) rs end
       | _ (* unless *) => match ls, rs with [], _ | _, [] => ls | _, _ => filter (fun s => negb (has_key (key_of (snd s)) rs)) ls end
       end |}.

Definition lit_step (op : binop) (retbool : bool) (lit : float) (left : bool) (s : step) : option step :=
  match opt_seq (map (fun sm : sample =>
                        match (if left then sample_op op retbool lit (fst sm) else sample_op op retbool (fst sm) lit) with
                        | Some (v, true) => Some (Some (v, snd sm))
                        | Some (_, false) => Some None
                        | None => None
                        end) (st_samples s)) with
  | Some l' => Some {| st_ts := st_ts s; st_samples := flat_map (fun o => match o with Some x => [x] | None => [] end) l' |}
  | None => None
  end.

(** * Expressions and build *)
Inductive mexpr :=
| MRange (op : rangeop) (q : equery) (range offset : Z) (u : option unwrap) (param : float) (g : grouping)
| MVecAgg (op : vecop) (e : mexpr) (param : Z) (g : grouping)
| MVector (v : float)
| MLit (v : float)
| MBin (op : binop) (retbool : bool) (l r : mexpr).

Record mparams := { p_start : Z; p_end : Z; p_step : Z }.

Fixpoint map2_opt {A B C} (f : A -> B -> option C) (a : list A) (b : list B) : option (list C) :=
  match a, b with
  | x :: a', y :: b' => match f x y, map2_opt f a' b' with Some z, Some r => Some (z :: r) | _, _ => None end
  | _, _ => Some []
  end.

Definition is_heap_op (op : vecop) : bool := match op with VBottomk | VTopk | VSort | VSortDesc => true | _ => false end.
Definition is_logic_op (op : binop) : bool := match op with OpAnd | OpOr | OpUnless => true | _ => false end.

(** all steps of an expression; None = outside the fragment (or a construct build rejects: a bare literal) *)
(** [recsf q qstart qend]: the records the storage delivers for query q's selection and window; [qf q]: what the engine still
    evaluates on them (the identity when the storage delivers unselected records, as the in-memory one does) *)
Fixpoint eval_steps (o : oracles) (c : caps) (qf : equery -> equery) (recsf : equery -> Z -> Z -> list record) (p : mparams) (e : mexpr) : option (list step) :=
  let stp := if p_step p =? 0 then 1000000000 else p_step p in
  match e with
  | MRange op q range offset u param g =>
      let instant := (p_start p =? p_end p) && (p_step p =? 0) in
      let qstart := p_start p - offset - range + (if instant then -30000000000 else 0) in
      let qend := p_end p - offset in
      let stored := recsf q qstart qend in
      match eval_log o c (qf q) (-1) stored with
      | None => None
      | Some es =>
        match sample_entries op u g es with
        | None => None
        | Some ses =>
            let unwrapped := match u with Some _ => true | None => false end in
            Some (range_run win_clear (batch_agg op unwrapped range param) g range offset (grid (p_start p) (p_end p) stp) {| rs_window := []; rs_rest := ses |})
        end
      end
  | MVecAgg op e1 param g =>
      match eval_steps o c qf recsf p e1 with
      | None => None
      | Some ss => Some (map (if is_heap_op op then vheap_step vec_grouping op (match op with VSort | VSortDesc => -1 | _ => param end) g else vagg_step vec_grouping op g) ss)
      end
  | MVector v => Some (map (fun T => {| st_ts := T; st_samples := [(v, empty_al)] |}) (grid (p_start p) (p_end p) (p_step p)))
  | MLit _ => None
  | MBin op rb l r =>
      match l, r with
      | MLit v, _ => match eval_steps o c qf recsf p r with Some ss => opt_seq (map (lit_step op rb v true) ss) | None => None end
      | _, MLit v => match eval_steps o c qf recsf p l with Some ss => opt_seq (map (lit_step op rb v false) ss) | None => None end
      | _, _ =>
          match eval_steps o c qf recsf p l, eval_steps o c qf recsf p r with
          | Some ls, Some rs => if is_logic_op op then Some (map (fun lr => merge_step op (fst lr) (snd lr)) (combine ls rs))
                                else map2_opt (binop_step op rb) ls rs
          | _, _ => None
          end
      end
  end.

(** * ReadStepResponse: series in first-appearance order, points in step order; T in milliseconds *)
Definition point := (Z * float)%type.
Definition series := (lmap * list point)%type.

Fixpoint series_add (ss : list series) (key : lmap) (p : point) : list series :=
  match ss with
  | [] => [(key, [p])]
  | (k, ps) :: t => if lmap_eqb k key then (k, ps ++ [p]) :: t else (k, ps) :: series_add t key p
  end.

Definition ms_of (ns : Z) : Z := ns / 1000000.

Definition read_steps (instant : bool) (steps : list step) : list series :=
  if instant then
    match steps with
    | [] => []
    | s :: _ => map (fun sm : sample => (visible (snd sm), [(ms_of (st_ts s), fst sm)])) (st_samples s)
    end
  else
    fold_left (fun ss s => fold_left (fun ss (sm : sample) => series_add ss (visible (snd sm)) (ms_of (st_ts s), fst sm)) (st_samples s) ss) steps [].

(** the mock storage: one record set, delivered in order, restricted to the window *)
Definition window_recs (recs : list record) (_ : equery) (qstart qend : Z) : list record :=
  filter (fun r => (qstart <=? r_ts r) && (r_ts r <=? qend)) recs.

Definition eval_metric_on (o : oracles) (c : caps) (qf : equery -> equery) (recsf : equery -> Z -> Z -> list record) (p : mparams) (e : mexpr) : option (list series) :=
  match eval_steps o c qf recsf p e with
  | Some steps => Some (read_steps ((p_start p =? p_end p) && (p_step p =? 0)) steps)
  | None => None
  end.

Definition eval_metric (o : oracles) (c : caps) (recs : list record) (p : mparams) (e : mexpr) : option (list series) :=
  eval_metric_on o c (fun q => q) (window_recs recs) p e.
