(** Model of cmd/docker-logql/params.go: parseTimeRange, parseTimestamp, parseStep, defaultStep,
    parseDuration, and of prometheus/common model.ParseDuration (transliterated). *)
From LogQLV Require Import Base.Bytes Base.Outcome Base.FloatX Base.TimeFmt.

Definition sec : Z := 1000000000.
Definition int64_max : Z := 9223372036854775807.
Definition wrap64 (z : Z) : Z := (z + 9223372036854775808) mod 18446744073709551616 - 9223372036854775808.

(** * strconv.ParseFloat(s, 64): executable fragment.
    [PFUnmodelled] marks spellings outside the fragment (exponents, hex floats, underscores, more than
    15 significant digits); the correspondence skips such cases, the theorems treat ParseFloat's result
    as given. *)
Inductive pf := PF (f : float) | PFErr | PFUnmodelled.

Definition byte_of_Z' (z : Z) : byte := match Byte.of_N (Z.to_N z) with Some b => b | None => x00 end.
Definition lower (b : byte) : byte :=
  if (65 <=? bz b) && (bz b <=? 90) then byte_of_Z' (bz b + 32) else b.

Definition float_char (b : byte) : bool :=
  is_digit_b b || ((65 <=? bz b) && (bz b <=? 90)) || ((97 <=? bz b) && (bz b <=? 122)) ||
  byte_eqb b "."%byte || byte_eqb b "+"%byte || byte_eqb b "-"%byte || byte_eqb b "_"%byte.

Fixpoint count_dots (s : bytes) : nat :=
  match s with [] => O | b :: t => ((if byte_eqb b "."%byte then 1 else 0) + count_dots t)%nat end.

Fixpoint strip_lead_zeros (s : bytes) : bytes :=
  match s with b :: t => if byte_eqb b "0"%byte then strip_lead_zeros t else s | [] => [] end.

Definition parse_float (s : bytes) : pf :=
  if negb (forallb float_char s) then PFErr else
  let '(neg, body) :=
    match s with
    | b :: t => if byte_eqb b "-"%byte then (true, t) else if byte_eqb b "+"%byte then (false, t) else (false, s)
    | [] => (false, s)
    end in
  let lb := map lower body in
  if bytes_eqb lb ["i"; "n"; "f"]%byte || bytes_eqb lb ["i"; "n"; "f"; "i"; "n"; "i"; "t"; "y"]%byte
  then PF (if neg then neg_infinity else infinity)
  else if bytes_eqb lb ["n"; "a"; "n"]%byte then (if Nat.eqb (length body) (length s) then PF nan else PFErr)
  else if forallb (fun b => is_digit_b b || byte_eqb b "."%byte) body then
    let '(ip, rest) := span_digits body in
    let fp := match rest with _ :: r => r | [] => [] end in
    if Nat.ltb 1 (count_dots body) then PFErr
    else if Nat.eqb (length ip + length fp) 0 then PFErr
    else
      let sig := strip_lead_zeros (ip ++ fp) in
      if Nat.ltb 15 (length sig) then PFUnmodelled
      else match parse_uint_acc (ip ++ fp) 0 with
           | Some d => match dec_to_float neg d (Z.of_nat (length fp)) with
                       | Some f => PF (if (d =? 0) && neg then neg_zero else f)
                       | None => PFUnmodelled
                       end
           | None => PFErr
           end
  else if existsb (fun b => byte_eqb b "+"%byte || byte_eqb b "-"%byte) body
          && forallb (fun b => is_digit_b b || byte_eqb b "."%byte || byte_eqb b "+"%byte || byte_eqb b "-"%byte) body
  then PFErr            (* a sign after the first position *)
  else if existsb (fun b => let c := bz (lower b) in (103 <=? c) && (c <=? 122) && negb (c =? 112) && negb (c =? 120)) body
  then PFErr            (* a letter that occurs in no float spelling (g-z except p, x; inf / nan were handled above) *)
  else PFUnmodelled.

(** * strconv.ParseInt(s, 10, 64) *)
Definition parse_int (s : bytes) : option Z :=
  let '(neg, body) :=
    match s with
    | b :: t => if byte_eqb b "-"%byte then (true, t) else if byte_eqb b "+"%byte then (false, t) else (false, s)
    | [] => (false, s)
    end in
  match body with
  | [] => None
  | _ => match parse_uint_acc body 0 with
         | Some v => let z := if neg then - v else v in
                     if (int64_min <=? z) && (z <=? int64_max) then Some z else None
         | None => None
         end
  end.

(** * model.ParseDuration (Prometheus duration grammar) *)
Definition unit_of (u : bytes) : option (Z * Z) :=    (* (pos, multiplier in ns) *)
  if bytes_eqb u ["m"; "s"]%byte then Some (7, 1000000)
  else if bytes_eqb u ["s"]%byte then Some (6, sec)
  else if bytes_eqb u ["m"]%byte then Some (5, 60 * sec)
  else if bytes_eqb u ["h"]%byte then Some (4, 3600 * sec)
  else if bytes_eqb u ["d"]%byte then Some (3, 86400 * sec)
  else if bytes_eqb u ["w"]%byte then Some (2, 7 * 86400 * sec)
  else if bytes_eqb u ["y"]%byte then Some (1, 365 * 86400 * sec)
  else None.

Fixpoint span_nondigits (s : bytes) : bytes * bytes :=
  match s with
  | b :: t => if is_digit_b b then ([], s) else let '(a, r) := span_nondigits t in (b :: a, r)
  | [] => ([], [])
  end.

Fixpoint prom_loop (fuel : nat) (s : bytes) (dur last_pos : Z) : option Z :=
  match fuel with
  | O => None
  | S f =>
    match s with
    | [] => Some dur
    | b :: _ =>
      if negb (is_digit_b b) then None else
      let '(ds, r1) := span_digits s in
      match parse_uint_acc ds 0 with
      | None => None
      | Some v =>
        if 18446744073709551615 <? v then None else        (* ParseUint range error *)
        let '(u, r2) := span_nondigits r1 in
        match u with
        | [] => None
        | _ =>
          match unit_of u with
          | None => None
          | Some (pos, mult) =>
            if pos <=? last_pos then None
            else if 9223372036854775808 / mult <? v then None
            else let dur' := dur + v * mult in
                 if int64_max <? dur' then None else prom_loop f r2 dur' pos
          end
        end
      end
    end
  end.

Definition prom_duration (s : bytes) : option Z :=
  if bytes_eqb s ["0"%byte] then Some 0
  else match s with [] => None | _ => prom_loop (S (length s)) s 0 0 end.

(** * parseTimestamp *)
Inductive tres := TOk (ns : Z) | TErr | TUnmodelled.

Definition contains_byte (c : byte) (s : bytes) : bool := existsb (byte_eqb c) s.

Section TS.
  Variable parse_rfc3339 : bytes -> option Z.        (* time.Parse(time.RFC3339Nano, s), a library oracle *)

  (** the float branch: s, ns := math.Modf(t); ns = math.Round(ns*1000)/1000; time.Unix(int64(s), int64(ns*1e9)) *)
  Definition float_instant (t : float) : Z :=
    let ip := match trunc_Z t with Some z => float_of_Z z | None => t end in
    let fr := match trunc_Z t with Some _ => PrimFloat.sub t ip | None => (if is_nan t then nan else zero) end in
    let fr' := PrimFloat.div (fround (PrimFloat.mul fr (float_of_Z 1000))) (float_of_Z 1000) in
    wrap64 (go_int64 ip * sec + go_int64 (PrimFloat.mul fr' (float_of_Z sec))).

  Definition parse_timestamp (value : bytes) (def : Z) : tres :=
    match value with
    | [] => TOk def
    | _ =>
      let after_float :=
        match parse_int value with
        | Some n => if Nat.leb (length value) 10 then TOk (n * sec) else TOk n
        | None => match parse_rfc3339 value with Some t => TOk t | None => TErr end
        end in
      if contains_byte "."%byte value then
        match parse_float value with
        | PF t => TOk (float_instant t)
        | PFErr => after_float
        | PFUnmodelled => TUnmodelled
        end
      else after_float
    end.

  (** * parseTimeRange *)
  Definition six_hours : Z := 6 * 3600 * sec.

  Inductive rres := ROk' (start end_ : Z) | RErr | RUnmodelled.

  Definition parse_time_range (now : Z) (startp endp sincep : option bytes) : rres :=
    match (match sincep with None => Some six_hours | Some v => prom_duration v end) with
    | None => RErr
    | Some since =>
      match parse_timestamp (match endp with Some v => v | None => [] end) now with
      | TErr => RErr
      | TUnmodelled => RUnmodelled
      | TOk e =>
        let end_or_now := if now <? e then now else e in
        match parse_timestamp (match startp with Some v => v | None => [] end) (end_or_now - since) with
        | TErr => RErr
        | TUnmodelled => RUnmodelled
        | TOk s => ROk' s e
        end
      end
    end.
End TS.

(** * defaultStep, parseDuration, parseStep *)

(** time.Time.Sub saturates at the int64 range; Duration.Seconds() = float64(d/1e9) + float64(d%1e9)/1e9 *)
Definition sat64 (z : Z) : Z := if z <? int64_min then int64_min else if int64_max <? z then int64_max else z.
Definition duration_seconds (d : Z) : float :=
  PrimFloat.add (float_of_Z (Z.quot d sec)) (PrimFloat.div (float_of_Z (Z.rem d sec)) (float_of_Z sec)).

(** since the fix of D22: max(int64(end.Sub(start) / (250*time.Second)), 1) seconds, in integers *)
Definition default_step (start end_ : Z) : Z :=
  Z.max (Z.quot (sat64 (end_ - start)) (250 * sec)) 1 * sec.

(** before the fix: float64 seconds, math.Floor, math.Max *)
Definition default_step_prefix (start end_ : Z) : Z :=
  let seconds := fmax (ffloor (PrimFloat.div (duration_seconds (sat64 (end_ - start))) (float_of_Z 250))) one in
  wrap64 (go_int64 seconds * sec).

Definition step_units : bytes := ["s"; "m"; "h"; "d"; "w"; "y"]%byte.

Inductive dres := DOk (d : Z) | DErr | DUnmodelled.

Definition parse_duration (value : bytes) : dres :=
  let prom := match prom_duration value with Some d => DOk d | None => DErr end in
  if negb (existsb (fun b => contains_byte b step_units) value) then
    match parse_float value with
    | PF f => if is_nan f || is_infinity f then DErr          (* since the fix of D15 *)
              else DOk (go_int64 (PrimFloat.mul f (float_of_Z sec)))
    | PFErr => prom
    | PFUnmodelled => DUnmodelled
    end
  else prom.

(** before the fix: any float was converted, the result was not checked *)
Definition parse_duration_prefix (value : bytes) : dres :=
  let prom := match prom_duration value with Some d => DOk d | None => DErr end in
  if negb (existsb (fun b => contains_byte b step_units) value) then
    match parse_float value with
    | PF f => DOk (go_int64 (PrimFloat.mul f (float_of_Z sec)))
    | PFErr => prom
    | PFUnmodelled => DUnmodelled
    end
  else prom.

Definition parse_step (param : option bytes) (start end_ : Z) : dres :=
  match param with
  | None => DOk (default_step start end_)
  | Some v => match parse_duration v with
              | DOk d => if d <=? 0 then DErr else DOk d
              | r => r
              end
  end.

Definition parse_step_prefix (param : option bytes) (start end_ : Z) : dres :=
  match param with
  | None => DOk (default_step start end_)
  | Some v => parse_duration_prefix v
  end.
