(** Model of renderResult (cmd/docker-logql/query.go) and the palette (color.go). *)
From LogQLV Require Import Base.Bytes Base.Outcome Base.TimeFmt.

Definition esc : byte := x1b.
(** ansi(code) = "\033[" ++ code ++ "m" *)
Definition ansi (code : bytes) : bytes := esc :: "["%byte :: code ++ ["m"%byte].
Definition reset_color : bytes := ansi ["0"%byte].
(** colors[names[i]] = ansi(strconv.Itoa(30+i)); names has 8 entries (grey..white) *)
Definition palette_len : nat := 8.
Definition color_of_index (i : nat) : bytes := ansi ["3"%byte; digit_byte (Z.of_nat i)].
Definition blue : bytes := color_of_index 4.

Record rentry := { re_ts : Z; re_msg : bytes; re_container : bytes }.
Record ropts := { o_timestamp : bool; o_container : bool; o_color : bool }.
(** a stream of the result: its value of the label "container" ("" when absent) and its entries *)
Definition rstream := (bytes * list (Z * bytes))%type.

Definition flatten (ss : list rstream) : list rentry :=
  flat_map (fun s => map (fun e => {| re_ts := fst e; re_msg := snd e; re_container := fst s |}) (snd s)) ss.

Fixpoint lookup (m : list (bytes * nat)) (k : bytes) : option nat :=
  match m with
  | [] => None
  | (k', v) :: t => if bytes_eqb k k' then Some v else lookup t k
  end.

(** first-sight colour assignment.  [index_of n] is the palette index for the (n+1)-th distinct
    container; an index outside the palette is a run-time panic. *)
Section Assign.
  Variable index_of : nat -> nat.
  Fixpoint assign (es : list rentry) (m : list (bytes * nat)) : outcome (list (bytes * nat)) :=
    match es with
    | [] => Ok m
    | e :: t =>
      match lookup m (re_container e) with
      | Some _ => assign t m
      | None =>
        let i := index_of (length m) in
        if Nat.ltb i palette_len then assign t (m ++ [(re_container e, i)])
        else Panic 1                      (* names[i]: index out of range *)
      end
    end.
End Assign.

(** current code: names[len(containerColors) % (len(names)-1) + 1]  (cycles over red..white) *)
Definition index_fixed (n : nat) : nat := (n mod (palette_len - 1) + 1)%nat.
(** code before the fix of D14: names[len(containerColors) % len(names) + 1] *)
Definition index_prefix (n : nat) : nat := (n mod palette_len + 1)%nat.

(** slices.SortFunc by timestamp: some sorted permutation; the model uses a stable insertion sort,
    the correspondence compares up to the order of equal timestamps *)
Fixpoint insert_ts (e : rentry) (l : list rentry) : list rentry :=
  match l with
  | [] => [e]
  | x :: t => if re_ts e <? re_ts x then e :: l else x :: insert_ts e t
  end.
Definition sort_ts (l : list rentry) : list rentry := fold_right insert_ts [] (rev l).
(* fold_right over rev l inserts the last element first, so equal keys keep input order *)

(** strings.TrimRight(v, "\r\n") *)
Definition is_crlf (b : byte) : bool := byte_eqb b x0d || byte_eqb b x0a.
Fixpoint drop_crlf (l : bytes) : bytes :=
  match l with b :: t => if is_crlf b then drop_crlf t else l | [] => [] end.
Definition trim_right_crlf (s : bytes) : bytes := rev (drop_crlf (rev s)).

Definition space_b : byte := " "%byte.

(** one output line; [code] is the palette code assigned to the entry's container *)
Definition fmt_line (o : ropts) (code : bytes) (e : rentry) : bytes :=
  (if o_container o then
     (if o_color o then code else []) ++ re_container e ++ (if o_color o then reset_color else []) ++ [space_b]
   else []) ++
  (if o_timestamp o then
     (if o_color o then blue else []) ++ fmt_ts (re_ts e) ++ (if o_color o then reset_color else []) ++ [space_b]
   else []) ++
  trim_right_crlf (re_msg e) ++ [x0a].

Definition code_for (m : list (bytes * nat)) (c : bytes) : bytes :=
  match lookup m c with Some i => color_of_index i | None => [] end.

Definition render_with (index_of : nat -> nat) (o : ropts) (ss : list rstream) : outcome (list bytes) :=
  let es := flatten ss in
  match (if o_color o then assign index_of es [] else Ok []) with
  | Ok m => Ok (map (fun e => fmt_line o (code_for m (re_container e)) e) (sort_ts es))
  | Err c => Err c
  | Panic s => Panic s
  end.

(** the lines written, in order (the output is their concatenation) *)
Definition render := render_with index_fixed.
Definition render_prefix := render_with index_prefix.
