(** Model of the pipeline stages of internal/logql/logqlengine (one function per Process method).
    Library behaviour is supplied by [oracles] tables (JSON/logfmt documents per line, regexp
    submatches, ANSI stripping) or by the executable fragments of Base/Regex.v, Base/Units.v. *)
From LogQLV Require Import Base.Bytes Base.FloatX Base.LMap Base.Regex Base.Units Base.TimeFmt Base.Utf8
                           Model.Tables Model.KeyToLabel Model.Flags Model.Syntax.

(** * String matchers (buildStringMatcher) *)
Record strm := { sm_op : binop; sm_value : bytes; sm_re : regex }.

(** [label]=true: label matcher (equality / fully anchored regex); false: line filter (contains / search) *)
Definition str_match (label : bool) (m : strm) (s : bytes) : bool :=
  match sm_op m with
  | OpEq => if label then bytes_eqb s (sm_value m) else contains (sm_value m) s
  | OpNotEq => negb (if label then bytes_eqb s (sm_value m) else contains (sm_value m) s)
  | OpRe => if label then re_full (sm_re m) s else re_search (sm_re m) s
  | OpNotRe => negb (if label then re_full (sm_re m) s else re_search (sm_re m) s)
  | _ => false
  end.

(** * JSON documents (oracle for go-faster/jx) *)
Inductive jv :=
| JStr (s : bytes)
| JNum (raw render : bytes)                  (* raw number text; AsString() of the pcommon Int/Double value *)
| JNull
| JBool (b : bool)
| JArr (items : list jv) (raw render : bytes) (* raw JSON text of the value; AsString() of the pcommon Slice *)
| JObj (fields : list (bytes * jv)) (raw render : bytes).

Inductive jres :=
| JDoc (v : jv)                              (* the line starts with this well-formed JSON value *)
| JBadObj (fields : list (bytes * jv))       (* an object that breaks after these complete top-level fields *)
| JBad.                                      (* not JSON at all *)

Inductive jsel := JKey (k : bytes) | JIdx (i : Z).
Definition jsel_eqb (a b : jsel) : bool :=
  match a, b with JKey x, JKey y => bytes_eqb x y | JIdx x, JIdx y => x =? y | _, _ => false end.
Fixpoint path_eqb (a b : list jsel) : bool :=
  match a, b with [], [] => true | x :: a', y :: b' => jsel_eqb x y && path_eqb a' b' | _, _ => false end.

Definition true_b : bytes := ["t"; "r"; "u"; "e"]%byte.
Definition false_b : bytes := ["f"; "a"; "l"; "s"; "e"]%byte.

(** AsString() of the pcommon value parseValue builds; None for null (not set) *)
Definition jv_render (v : jv) : option bytes :=
  match v with
  | JStr s => Some s
  | JNum _ r => Some r
  | JNull => None
  | JBool b => Some (if b then true_b else false_b)
  | JArr _ _ r => Some r
  | JObj _ _ r => Some r
  end.

Record oracles := {
  o_json : list (bytes * jres);                                  (* by line *)
  o_logfmt : list (bytes * (list (bytes * bytes) * bool));       (* by line: key/values decoded before an error, error? *)
  o_submatch : list (Z * list (bytes * option (list bytes)));    (* by regexp-stage id, then by line: FindStringSubmatch *)
  o_decolor : list (bytes * bytes);                              (* by line: ansiRegex.ReplaceAllString(line, "") *)
}.

Fixpoint assoc {A} (l : list (bytes * A)) (k : bytes) : option A :=
  match l with [] => None | (k', v) :: t => if bytes_eqb k k' then Some v else assoc t k end.
Fixpoint assocZ {A} (l : list (Z * A)) (k : Z) : option A :=
  match l with [] => None | (k', v) :: t => if k =? k' then Some v else assocZ t k end.

(** * LabelSet.SetError: the first error wins; details text is a placeholder (never compared) *)
Definition error_label : bytes := ["_";"_";"e";"r";"r";"o";"r";"_";"_"]%byte.
Definition error_details_label : bytes := ["_";"_";"e";"r";"r";"o";"r";"_";"d";"e";"t";"a";"i";"l";"s";"_";"_"]%byte.
Definition details_placeholder : bytes := ["?"%byte].
Definition set_error (ls : lmap) (typ : bytes) : lmap :=
  if lhas ls error_label then ls else lset (lset ls error_label typ) error_details_label details_placeholder.

Definition E_json : bytes := ["J";"S";"O";"N";" ";"p";"a";"r";"s";"i";"n";"g";" ";"e";"r";"r";"o";"r"]%byte.
Definition E_logfmt : bytes := ["l";"o";"g";"f";"m";"t";" ";"p";"a";"r";"s";"i";"n";"g";" ";"e";"r";"r";"o";"r"]%byte.
Definition E_unpack : bytes := ["u";"n";"p";"a";"c";"k";" ";"J";"S";"O";"N";" ";"p";"a";"r";"s";"i";"n";"g";" ";"e";"r";"r";"o";"r"]%byte.
Definition E_tmpl : bytes := ["t";"e";"m";"p";"l";"a";"t";"e";" ";"e";"r";"r";"o";"r"]%byte.
Definition E_dur : bytes := ["d";"u";"r";"a";"t";"i";"o";"n";" ";"p";"a";"r";"s";"i";"n";"g";" ";"e";"r";"r";"o";"r"]%byte.
Definition E_bytes : bytes := ["b";"y";"t";"e";"s";" ";"p";"a";"r";"s";"i";"n";"g";" ";"e";"r";"r";"o";"r"]%byte.
Definition E_num : bytes := ["n";"u";"m";"b";"e";"r";" ";"p";"a";"r";"s";"i";"n";"g";" ";"e";"r";"r";"o";"r"]%byte.
Definition E_ip : bytes := ["i";"p";" ";"p";"a";"r";"s";"i";"n";"g";" ";"e";"r";"r";"o";"r"]%byte.

(** * Label filter predicates *)
Inductive epred :=
| EPMatch (l : bytes) (m : strm)
| EPNum (l : bytes) (o : binop) (v : float)
| EPDur (l : bytes) (o : binop) (ns : Z)
| EPBytes (l : bytes) (o : binop) (n : Z)
| EPIP (l : bytes) (neg : bool) (p : ippat)
| EPAnd (a b : epred)
| EPOr (a b : epred).

Definition cmp_Z (o : binop) (a b : Z) : bool :=
  match o with
  | OpEq => a =? b | OpNotEq => negb (a =? b) | OpGt => b <? a | OpGte => b <=? a | OpLt => a <? b | OpLte => a <=? b
  | _ => false
  end.
Definition cmp_F (o : binop) (a b : float) : bool :=
  match o with
  | OpEq => PrimFloat.eqb a b | OpNotEq => negb (PrimFloat.eqb a b)
  | OpGt => PrimFloat.ltb b a | OpGte => PrimFloat.leb b a | OpLt => PrimFloat.ltb a b | OpLte => PrimFloat.leb a b
  | _ => false
  end.

(** result of a Process call: None = outside the executable fragment of some library model *)
Definition pout := option (bytes * bool * lmap).    (* (returned line, keep, labels) *)

Fixpoint process_pred (p : epred) (line : bytes) (ls : lmap) : pout :=
  match p with
  | EPMatch l m => Some (line, str_match true m (lget_or_empty ls l), ls)
  | EPNum l o v =>
      match lget ls l with
      | None => Some ([], false, ls)
      | Some s => match parse_float s with
                  | PF f => Some (line, cmp_F o f v, ls)
                  | PFErr => Some (line, true, set_error ls E_num)
                  | PFUnmodelled => None
                  end
      end
  | EPDur l o ns =>
      match lget ls l with
      | None => Some ([], false, ls)
      | Some s => if negb (forallb (fun b => (bz b <? 128) || (bz b =? 194) || (bz b =? 181) || (bz b =? 206) || (bz b =? 188)) s) then None else
                  match go_parse_duration s with
                  | Some d => Some (line, cmp_Z o d ns, ls)
                  | None => Some (line, true, set_error ls E_dur)
                  end
      end
  | EPBytes l o n =>
      match lget ls l with
      | None => Some ([], false, ls)
      | Some s => match humanize_bytes s with
                  | VOk b => Some (line, cmp_Z o b n, ls)
                  | VErr => Some (line, true, set_error ls E_bytes)
                  | VUnmodelled => None
                  end
      end
  | EPIP l neg pat =>
      if ip_out pat then None else
      match lget ls l with
      | None => Some ([], false, ls)
      | Some s => if existsb (fun b => byte_eqb b ":"%byte) s then None (* IPv6: outside the fragment *) else
                  match parse_ipv4 s with
                  | Some a => Some (line, xorb neg (ip_match pat a), ls)
                  | None => Some (line, true, set_error ls E_ip)
                  end
      end
  | EPAnd a b =>
      match process_pred a line ls with
      | Some (line', true, ls') => process_pred b line' ls'
      | r => r
      end
  | EPOr a b =>
      match process_pred a line ls with
      | Some (line', false, ls') => process_pred b line ls'      (* since the fix of D19 the right operand sees the ORIGINAL line *)
      | r => r
      end
  end.

(** before the fix of D19: the right operand received the line returned by the left one ("" on an absent label) *)
Fixpoint process_pred_prefix (p : epred) (line : bytes) (ls : lmap) : pout :=
  match p with
  | EPAnd a b =>
      match process_pred_prefix a line ls with
      | Some (line', true, ls') => process_pred_prefix b line' ls'
      | r => r
      end
  | EPOr a b =>
      match process_pred_prefix a line ls with
      | Some (line', false, ls') => process_pred_prefix b line' ls'
      | r => r
      end
  | _ => process_pred p line ls
  end.

(** * IP line filter: scanning for addresses (IPLineFilter.Process, tryCaptureIPv4 / tryCaptureIPv6) *)
Definition is_hex_b (b : byte) : bool := is_digit_b b || ((97 <=? bz b) && (bz b <=? 102)) || ((65 <=? bz b) && (bz b <=? 70)).

Fixpoint span_v4 (s : bytes) : bytes * bytes :=
  match s with
  | b :: t => if is_digit_b b || byte_eqb b "."%byte then let '(a, r) := span_v4 t in (b :: a, r) else ([], s)
  | [] => ([], [])
  end.
Definition try_v4 (s : bytes) : option (bytes * bytes) :=
  match s with
  | b0 :: b1 :: b2 :: b3 :: _ =>
      if is_digit_b b0 && (byte_eqb b1 "."%byte || byte_eqb b2 "."%byte || byte_eqb b3 "."%byte) then Some (span_v4 s) else None
  | _ => None
  end.
(** does an IPv6 capture start here?  (its content is outside the fragment) *)
Fixpoint hex_then_colon (s : bytes) : bool :=
  match s with
  | b :: t => if is_hex_b b then hex_then_colon t else byte_eqb b ":"%byte
  | [] => false
  end.
Definition v6_starts (s : bytes) : bool :=
  match s with
  | b0 :: b1 :: t => (byte_eqb b0 ":"%byte && byte_eqb b1 ":"%byte) || (is_hex_b b0 && hex_then_colon (b1 :: t))
  | _ => false
  end.

(** positive scan: does the line contain an IPv4 address matching [pat]?  None = an IPv6-looking capture occurs *)
Fixpoint ip_scan (fuel : nat) (pat : ippat) (s : bytes) : option bool :=
  match fuel with
  | O => Some false
  | S f =>
    match s with
    | [] => Some false
    | c :: t =>
      if negb (is_hex_b c || byte_eqb c ":"%byte) then ip_scan f pat t else
      match try_v4 s with
      | Some (cap, rest) =>
          match parse_ipv4 cap with
          | Some a => if ip_match pat a then Some true else ip_scan f pat rest
          | None => ip_scan f pat rest
          end
      | None => if v6_starts s then None else ip_scan f pat t
      end
    end
  end.

(** * Templates (fragment of text/template + the function map) *)
Inductive titem :=
| TText (s : bytes)
| TLabel (name : bytes)           (* {{.name}}; a missing key prints "" (missingkey=zero on map[string]string) *)
| TLine                           (* {{ __line__ }} *)
| TTsNanos                        (* {{ __timestamp__ | unixEpochNanos }} *)
| TUpper (name : bytes)           (* {{ .name | ToUpper }}  (ASCII) *)
| TLower (name : bytes)
| TFail                           (* a call that always fails at execution time *)
| TGuard (name okval out : bytes). (* a call on label [name] that yields [out] when the label reads [okval] and fails otherwise
                                     (e.g. unixToTime on a numeric / non-numeric value); [out] is library behaviour, supplied with the case *)
Definition tmpl := list titem.

Definition upper_b (b : byte) : byte := if (97 <=? bz b) && (bz b <=? 122) then byte_of_Z' (bz b - 32) else b.

Fixpoint expand (t : tmpl) (ts : Z) (line : bytes) (ls : lmap) : option bytes :=
  match t with
  | [] => Some []
  | it :: rest =>
    match expand rest ts line ls with
    | None => None
    | Some tail =>
      match it with
      | TText s => Some (s ++ tail)
      | TLabel n => Some (lget_or_empty ls n ++ tail)
      | TLine => Some (line ++ tail)
      | TTsNanos => Some (dec ts ++ tail)
      | TUpper n => Some (map upper_b (lget_or_empty ls n) ++ tail)
      | TLower n => Some (map lower (lget_or_empty ls n) ++ tail)
      | TFail => None
      | TGuard n okv out => if bytes_eqb (lget_or_empty ls n) okv then Some (out ++ tail) else None
      end
    end
  end.

(** * json stage *)
(** extractAll: every top-level field, key sanitised, later duplicates override, null skipped *)
Definition json_all (fields : list (bytes * jv)) (ls : lmap) : lmap :=
  fold_left (fun m kv => match jv_render (snd kv) with
                         | Some r => lset m (key_to_label (fst kv)) r
                         | None => m
                         end) fields ls.

(** extractSome: only requested keys, key used as is *)
Definition json_some (want : list bytes) (fields : list (bytes * jv)) (ls : lmap) : lmap :=
  fold_left (fun m kv => if existsb (bytes_eqb (fst kv)) want
                         then match jv_render (snd kv) with Some r => lset m (fst kv) r | None => m end
                         else m) fields ls.

(** jsonexpr.Extract: the path-matching walk.  [paths] maps label -> path. *)
Definition emit_matches (paths : list (bytes * list jsel)) (cur : list jsel) (val : bytes) (ls : lmap) : lmap :=
  fold_left (fun m lp => if path_eqb cur (snd lp) then lset m (fst lp) val else m) paths ls.

Fixpoint walk (paths : list (bytes * list jsel)) (cur : list jsel) (v : jv) (ls : lmap) {struct v} : lmap :=
  match v with
  | JStr s => emit_matches paths cur s ls
  | JNum raw _ => emit_matches paths cur raw ls
  | JNull => emit_matches paths cur [] ls
  | JBool b => emit_matches paths cur (if b then true_b else false_b) ls
  | JArr items raw _ =>
      let ls1 := emit_matches paths cur raw ls in
      (fix go (l : list jv) (i : Z) (m : lmap) : lmap :=
         match l with
         | [] => m
         | x :: t => go t (i + 1) (walk paths (cur ++ [JIdx i]) x m)
         end) items 0 ls1
  | JObj fields raw _ =>
      let ls1 := emit_matches paths cur raw ls in
      (fix go (l : list (bytes * jv)) (m : lmap) : lmap :=
         match l with
         | [] => m
         | (k, x) :: t => go t (walk paths (cur ++ [JKey k]) x m)
         end) fields ls1
  end.

Definition walk_fields (paths : list (bytes * list jsel)) (fields : list (bytes * jv)) (ls : lmap) : lmap :=
  fold_left (fun m kv => walk paths [JKey (fst kv)] (snd kv) m) fields ls.

Definition is_obj (v : jv) : option (list (bytes * jv)) := match v with JObj f _ _ => Some f | _ => None end.

Definition process_json (o : oracles) (labels : list bytes) (paths : list (bytes * list jsel)) (line : bytes) (ls : lmap) : pout :=
  match assoc (o_json o) line with
  | None => None
  | Some res =>
    match paths with
    | _ :: _ =>
        (* extractExprs: requested labels become single-key paths *)
        let ps := paths ++ map (fun l => (l, [JKey l])) labels in
        match res with
        | JDoc v => Some (line, true, walk ps [] v ls)
        | JBadObj fields => Some (line, true, set_error (walk_fields ps fields ls) E_json)
        | JBad => Some (line, true, set_error ls E_json)
        end
    | [] =>
        match res with
        | JDoc v =>
            match is_obj v with
            | Some fields => Some (line, true, match labels with [] => json_all fields ls | _ => json_some labels fields ls end)
            | None => Some (line, true, set_error ls E_json)
            end
        | JBadObj fields => Some (line, true, set_error (match labels with [] => json_all fields ls | _ => json_some labels fields ls end) E_json)
        | JBad => Some (line, true, set_error ls E_json)
        end
    end
  end.

(** * logfmt stage *)
Definition process_logfmt (o : oracles) (table : list (bytes * bytes)) (line : bytes) (ls : lmap) : pout :=
  match assoc (o_logfmt o) line with
  | None => None
  | Some (kvs, err) =>
    let ls1 :=
      match table with
      | [] => fold_left (fun m kv => lset m (fst kv) (snd kv)) kvs ls                    (* extractAll: key used as is *)
      | _ => fold_left (fun m kv => match assoc table (fst kv) with
                                    | Some lbl => lset m lbl (snd kv)
                                    | None => m
                                    end) kvs ls
      end in
    Some (line, true, if err then set_error ls1 E_logfmt else ls1)
  end.

(** * regexp stage: FindStringSubmatch is an oracle; the index -> label mapping is the code's *)
Definition process_regexp (o : oracles) (id : Z) (mapping : list (Z * bytes)) (line : bytes) (ls : lmap) : pout :=
  match assocZ (o_submatch o) id with
  | None => None
  | Some tbl =>
    match assoc tbl line with
    | None => None
    | Some None => Some (line, true, ls)
    | Some (Some groups) =>
      Some (line, true,
            snd (fold_left (fun (acc : Z * lmap) g =>
                              (fst acc + 1, match assocZ mapping (fst acc) with
                                            | Some lbl => lset (snd acc) lbl g
                                            | None => snd acc
                                            end)) groups (0, ls)))
    end
  end.

(** * pattern stage (logqlpattern.Match), pure string code *)
Inductive ppart := PLit (s : bytes) | PCap (name : bytes).

(** strings.Cut(input, sep): text before the first occurrence of sep; found? *)
Fixpoint cut_before (sep s : bytes) : bytes * bool :=
  if is_prefix sep s then ([], true) else
  match s with
  | [] => ([], false)
  | b :: t => let '(a, ok) := cut_before sep t in (b :: a, ok)
  end.

Fixpoint pattern_match (parts : list ppart) (input : bytes) (ls : lmap) : lmap :=
  match parts with
  | [] => ls
  | PLit l :: rest => if is_prefix l input then pattern_match rest (skipn (length l) input) ls else ls
  | PCap name :: rest =>
    let '(value, ok) :=
      match rest with
      | PLit nl :: _ => cut_before nl input
      | PCap _ :: _ => cut_before [] input         (* unreachable: Parse rejects consecutive captures *)
      | [] => (input, true)
      end in
    let ls' := if bytes_eqb name ["_"%byte] then ls else lset ls name value in
    if ok then pattern_match rest (skipn (length value) input) ls' else ls'
  end.

(** * unpack stage *)
(** logql.IsValidLabel(key, allowDots=true) *)
Definition valid_label_dots (k : bytes) : bool :=
  match k with
  | [] => false
  | b :: _ => (is_alpha_r (bz b) || (bz b =? 95)) &&
              forallb (fun c => is_alpha_r (bz c) || is_digit_r (bz c) || (bz c =? 95) || (bz c =? 46)) k
  end.

(** returns (line, labels, failed) *)
Fixpoint unpack_fields (fields : list (bytes * jv)) (line : bytes) (ls : lmap) : bytes * lmap * bool :=
  match fields with
  | [] => (line, ls, false)
  | (k, JStr s) :: t =>
      if bytes_eqb k ["_";"e";"n";"t";"r";"y"]%byte then unpack_fields t s ls
      else if valid_label_dots k then unpack_fields t line (lset ls k s) else (line, ls, true)
  | _ :: t => unpack_fields t line ls          (* non-string fields are ignored *)
  end.

Definition process_unpack (o : oracles) (line : bytes) (ls : lmap) : pout :=
  match assoc (o_json o) line with
  | None => None
  | Some (JDoc (JObj fields _ _)) =>
      let '(line', ls', failed) := unpack_fields fields line ls in
      if failed then Some (line, true, set_error ls' E_unpack) else Some (line', true, ls')
  | Some (JBadObj fields) =>
      let '(_, ls', _) := unpack_fields fields line ls in Some (line, true, set_error ls' E_unpack)
  | Some _ => Some (line, true, set_error ls E_unpack)
  end.

(** * line_format / label_format / drop / keep / decolorize / distinct *)
Definition process_line_format (t : tmpl) (ts : Z) (line : bytes) (ls : lmap) : pout :=
  match expand t ts line ls with
  | Some out => Some (out, true, ls)
  | None => Some (line, true, set_error ls E_tmpl)
  end.

(** RenameLabel.Process over pairs (Label = source, To = target); since the fix of D20 a self-rename is a no-op *)
Definition rename_labels (pairs : list (bytes * bytes)) (ls : lmap) : lmap :=
  fold_left (fun m p => match lget m (fst p) with
                        | Some v => if bytes_eqb (fst p) (snd p) then m else ldel (lset m (snd p) v) (fst p)
                        | None => m
                        end) pairs ls.
(** before the fix of D20: set then delete, also when source = target *)
Definition rename_labels_prefix (pairs : list (bytes * bytes)) (ls : lmap) : lmap :=
  fold_left (fun m p => match lget m (fst p) with
                        | Some v => ldel (lset m (snd p) v) (fst p)
                        | None => m
                        end) pairs ls.

(** LabelFormat.Process: renames first; every template is expanded over the label map SNAPSHOT taken after
    the renames (m := set.AsMap() is computed once) *)
Definition process_label_format (renames : list (bytes * bytes)) (tmpls : list (bytes * tmpl)) (ts : Z) (line : bytes) (ls : lmap) : pout :=
  let ls1 := rename_labels renames ls in
  Some (line, true,
        fold_left (fun m lt => match expand (snd lt) ts line ls1 with
                               | Some v => lset m (fst lt) v
                               | None => set_error m E_tmpl
                               end) tmpls ls1).

(** DropLabels.dropPair / KeepLabels.keepPair (since the fix of D25): every list item selects on its own -- a bare
    name always, a matcher when the value matches *)
Definition pair_selected (names : list bytes) (ms : list (bytes * strm)) (k v : bytes) : bool :=
  existsb (bytes_eqb k) names || existsb (fun km => bytes_eqb (fst km) k && str_match true (snd km) v) ms.

(** before the fix of D25: named or having matchers, and ALL matchers listed for the label must match *)
Definition pair_selected_prefix (names : list bytes) (ms : list (bytes * strm)) (k v : bytes) : bool :=
  let mine := filter (fun km => bytes_eqb (fst km) k) ms in
  let named := existsb (bytes_eqb k) names in
  match named, mine with
  | false, [] => false
  | _, _ => forallb (fun km => str_match true (snd km) v) mine
  end.

Definition process_drop (names : list bytes) (ms : list (bytes * strm)) (line : bytes) (ls : lmap) : pout :=
  Some (line, true, lfilter (fun k v => negb (pair_selected names ms k v)) ls).
Definition process_keep (names : list bytes) (ms : list (bytes * strm)) (line : bytes) (ls : lmap) : pout :=
  Some (line, true, lfilter (fun k v => pair_selected names ms k v) ls).

Definition process_decolorize (o : oracles) (line : bytes) (ls : lmap) : pout :=
  if negb (existsb (fun b => (bz b =? 27) || (bz b =? 194)) line) then Some (line, true, ls)   (* no ESC / no U+009B lead byte: nothing to strip *)
  else match assoc (o_decolor o) line with
       | Some out => Some (out, true, ls)
       | None => None
       end.

(** DistinctFilter.Process: state = set of (label, value) already seen *)
Definition dstate := list (bytes * bytes).
Fixpoint distinct_loop (labels : list bytes) (ls : lmap) (st : dstate) (keep : bool) : dstate * bool :=
  match labels with
  | [] => (st, keep)
  | l :: t =>
    match lget ls l with
    | None => (st, true)
    | Some v => if existsb (fun p => bytes_eqb (fst p) l && bytes_eqb (snd p) v) st then (st, false)
                else distinct_loop t ls ((l, v) :: st) true
    end
  end.

(** * Stages *)
Inductive estage :=
| ELine (m : strm)
| ELineIP (neg : bool) (p : ippat)
| EJson (labels : list bytes) (paths : list (bytes * list jsel))
| ELogfmt (table : list (bytes * bytes))
| ERegexp (id : Z) (mapping : list (Z * bytes))
| EPattern (parts : list ppart)
| EUnpack
| ELineFormat (t : tmpl)
| EDecolorize
| ELabelFilter (p : epred)
| ELabelFormat (renames : list (bytes * bytes)) (tmpls : list (bytes * tmpl))
| EDrop (names : list bytes) (ms : list (bytes * strm))
| EKeep (names : list bytes) (ms : list (bytes * strm))
| EDistinct (labels : list bytes).

(** one Process call; the distinct state is threaded explicitly *)
Definition process (o : oracles) (s : estage) (st : dstate) (ts : Z) (line : bytes) (ls : lmap) : option (dstate * bytes * bool * lmap) :=
  let lift (r : pout) := match r with Some (l, k, m) => Some (st, l, k, m) | None => None end in
  match s with
  | ELine m => Some (st, line, str_match false m line, ls)
  | ELineIP neg pat =>
      if ip_out pat then None else
      match ip_scan (S (length line)) pat line with
      | Some found => Some (st, line, xorb neg found, ls)     (* since the fix of D18: negation of the positive scan *)
      | None => None
      end
  | EJson labels paths => lift (process_json o labels paths line ls)
  | ELogfmt table => lift (process_logfmt o table line ls)
  | ERegexp id mapping => lift (process_regexp o id mapping line ls)
  | EPattern parts => Some (st, line, true, pattern_match parts line ls)
  | EUnpack => lift (process_unpack o line ls)
  | ELineFormat t => lift (process_line_format t ts line ls)
  | EDecolorize => lift (process_decolorize o line ls)
  | ELabelFilter p => lift (process_pred p line ls)
  | ELabelFormat rs ts' => lift (process_label_format rs ts' ts line ls)
  | EDrop names ms => lift (process_drop names ms line ls)
  | EKeep names ms => lift (process_keep names ms line ls)
  | EDistinct labels => let '(st', keep) := distinct_loop labels ls st false in Some (st', line, keep, ls)
  end.
