(** Model of internal/dockerlog/merge_iter.go (mergeIter over container/heap) and of the
    index-addressed concurrent open in Querier.SelectLogs (internal/dockerlog/dockerlog.go). *)
From LogQLV Require Import Base.Bytes Base.Heap.

Section Merge.
  Variable R : Type.            (* a record *)
  Variable ts : R -> Z.         (* record.Timestamp *)
  Variable dflt : R.

  (** a source iterator: the records it will still deliver, and whether it ends with an error *)
  Definition source := (list R * bool)%type.

  Definition elem := (nat * R)%type.     (* iterHeapElem{iterIdx, record} *)
  Definition eless (a b : elem) : bool := ts (snd a) <? ts (snd b).
  Definition edflt : elem := (O, dflt).

  Definition hpush := heap_push eless edflt.
  Definition hpop := heap_pop eless edflt.

  (** iter.Next on source [idx] *)
  Definition pull (srcs : list source) (idx : nat) : option R * list source :=
    match nth_error srcs idx with
    | Some (r :: rest, e) => (Some r, set_nth srcs idx (rest, e))
    | _ => (None, srcs)
    end.

  Definition src_failed (srcs : list source) (idx : nat) : bool :=
    match nth_error srcs idx with
    | Some ([], true) => true
    | _ => false
    end.

  (** mergeIter.init: one record from every source that has one (a source that is empty or
      fails immediately is skipped; its error shows only in Err()) *)
  Fixpoint init_from (n : nat) (idx : nat) (heap : list elem) (srcs : list source) : list elem * list source :=
    match n with
    | O => (heap, srcs)
    | S n' =>
      match pull srcs idx with
      | (Some r, srcs') => init_from n' (S idx) (hpush heap (idx, r)) srcs'
      | (None, srcs') => init_from n' (S idx) heap srcs'
      end
    end.
  Definition merge_init (srcs : list source) := init_from (length srcs) 0 [] srcs.

  Inductive next_result :=
  | Emit (e : elem) (heap : list elem) (srcs : list source)
  | Done
  | Failed.      (* Next returned false because the refill found a failed source; the popped record is lost *)

  Definition merge_next (heap : list elem) (srcs : list source) : next_result :=
    match hpop heap with
    | None => Done
    | Some ((idx, r), heap') =>
      match pull srcs idx with
      | (Some r', srcs') => Emit (idx, r) (hpush heap' (idx, r')) srcs'
      | (None, srcs') => if src_failed srcs idx then Failed else Emit (idx, r) heap' srcs'
      end
    end.

  Fixpoint merge_loop (fuel : nat) (heap : list elem) (srcs : list source) : list elem * bool :=
    match fuel with
    | O => ([], true)
    | S f =>
      match merge_next heap srcs with
      | Done => ([], false)
      | Failed => ([], true)
      | Emit e heap' srcs' => let '(out, err) := merge_loop f heap' srcs' in (e :: out, err)
      end
    end.

  Definition total (srcs : list source) : nat := fold_right (fun s n => (length (fst s) + n)%nat) 0%nat srcs.

  (** the drained merged stream: (source index, record) in delivery order, and whether Err() is non-nil *)
  Definition merge_all (srcs : list source) : list elem * bool :=
    let '(heap, srcs') := merge_init srcs in
    let '(out, stopped) := merge_loop (S (total srcs)) heap srcs' in
    (out, stopped || existsb (fun s => snd s) srcs).
End Merge.

Arguments merge_all {R}. Arguments merge_init {R}. Arguments merge_next {R}. Arguments merge_loop {R}.
Arguments Emit {R}. Arguments Done {R}. Arguments Failed {R}.

(** SelectLogs: n tasks; task [idx] stores its opened iterator into slot [idx]; the schedule is the
    order in which the tasks complete.  The slot array after Wait: *)
Section Open.
  Variable I : Type.
  Definition run_open (opened : list I) (sched : list nat) : list (option I) :=
    fold_left (fun slots idx =>
                 match nth_error opened idx with
                 | Some it => set_nth slots idx (Some it)
                 | None => slots
                 end) sched (map (fun _ => None) opened).
End Open.
Arguments run_open {I}.
