(** LogQL abstract syntax as built by internal/logql (regexes kept as source text), and a canonical
    textual dump used to compare trees produced by the Go parser, the model parser and the generator. *)
From LogQLV Require Import Base.Bytes Base.FloatX Model.Tables.

Record matcher := { m_label : bytes; m_op : binop; m_value : bytes }.

Inductive pred :=
| PMatch (m : matcher)
| PNum (l : bytes) (o : binop) (v : float)
| PDur (l : bytes) (o : binop) (ns : Z)
| PBytes (l : bytes) (o : binop) (n : Z)
| PIP (l : bytes) (o : binop) (pat : bytes)
| PBin (a : pred) (o : binop) (b : pred)
| PParen (a : pred).

Inductive stage :=
| SLine (o : binop) (v : bytes) (ip : bool)
| SJson (ls : list bytes) (es : list (bytes * bytes))
| SLogfmt (ls : list bytes) (es : list (bytes * bytes))
| SRegexp (src : bytes) (mapping : list (Z * bytes))
| SNilRegexp                         (* parseRegexpLabelParser returning (nil, nil) *)
| SPattern (p : bytes)
| SUnpack
| SLineFormat (t : bytes)
| SDecolorize
| SLabelFilter (p : pred)
| SLabelFormat (renames : list (bytes * bytes)) (tmpls : list (bytes * bytes))   (* RenameLabel{Label,To}, LabelTemplate{Label,Template} *)
| SDrop (ls : list bytes) (ms : list matcher)
| SKeep (ls : list bytes) (ms : list matcher)
| SDistinct (ls : list bytes).

Record grouping := { g_labels : list bytes; g_without : bool }.
Record unwrap := { u_op : bytes; u_label : bytes; u_filters : list matcher }.
Record logrange := { r_sel : list matcher; r_range : Z; r_pipe : list stage;
                     r_unwrap : option unwrap; r_offset : option Z }.
Record modifier := { bm_op : bytes; bm_oplabels : list bytes; bm_group : bytes;
                     bm_include : list bytes; bm_bool : bool }.

Inductive expr :=
| ELog (sel : list matcher) (pipe : list stage)
| ERange (op : rangeop) (r : logrange) (param : option float) (g : option grouping)
| EVecAgg (op : vectorop) (e : expr) (k : option Z) (g : option grouping)
| ELit (v : float)
| EVector (v : float)
| ELabelReplace (e : expr) (dst repl src re : bytes)
| EBin (l : expr) (op : binop) (m : modifier) (r : expr)
| EParen (e : expr).

(** * Canonical dump *)
Definition byte_of_Z'' (z : Z) : byte := match Byte.of_N (Z.to_N z) with Some b => b | None => x00 end.
Fixpoint dec_pos_fuel (fuel : nat) (n : Z) (acc : bytes) : bytes :=
  match fuel with
  | O => acc
  | S f => let acc' := byte_of_Z'' (48 + n mod 10) :: acc in
           if n <? 10 then acc' else dec_pos_fuel f (n / 10) acc'
  end.
Definition dec (n : Z) : bytes :=
  if n <? 0 then "-"%byte :: dec_pos_fuel 80 (- n) [] else dec_pos_fuel 80 n [].

Definition sp : bytes := [" "%byte].
Definition dstr (s : bytes) : bytes := dec (Z.of_nat (length s)) ++ ":"%byte :: s.
Definition dlist {A} (f : A -> bytes) (l : list A) : bytes :=
  "["%byte :: concat (map (fun x => f x ++ sp) l) ++ ["]"%byte].
Definition dopt {A} (f : A -> bytes) (o : option A) : bytes :=
  match o with None => ["~"%byte] | Some x => f x end.
Definition dbool (b : bool) : bytes := [if b then "T"%byte else "F"%byte].
Definition node (tag : bytes) (fields : list bytes) : bytes :=
  "("%byte :: tag ++ concat (map (fun f => sp ++ f) fields) ++ [")"%byte].

(** float as its bit pattern *)
Definition float_bits (f : float) : Z :=
  match Prim2SF f with
  | S754_zero s => if s then 9223372036854775808 else 0
  | S754_infinity s => (if s then 9223372036854775808 else 0) + 9218868437227405312
  | S754_nan => 9221120237041090560
  | S754_finite s m e =>
      (if s then 9223372036854775808 else 0) +
      (if Zpos m <? 4503599627370496 then Zpos m                     (* subnormal: e = -1074 *)
       else (e + 1075) * 4503599627370496 + (Zpos m - 4503599627370496))
  end.
Definition dfloat (f : float) : bytes := "f"%byte :: dec (float_bits f).

Definition dop (o : binop) : bytes := dec (binop_code o).
(** the source of the compiled regexp a node carries: ^(?:v)$ for a label matcher (compileLabelRegex), v itself for a line filter *)
Definition is_re_op (o : binop) : bool := (binop_code o =? binop_code OpRe) || (binop_code o =? binop_code OpNotRe).
Definition anchored_src (v : bytes) : bytes := ["^"; "("; "?"; ":"]%byte ++ v ++ [")"; "$"]%byte.
Definition dmatcher (m : matcher) : bytes :=
  node ["m"%byte] [dstr (m_label m); dop (m_op m); dstr (m_value m); dstr (if is_re_op (m_op m) then anchored_src (m_value m) else [])].
Definition dpair (p : bytes * bytes) : bytes := node ["p"%byte] [dstr (fst p); dstr (snd p)].

Fixpoint dpred (p : pred) : bytes :=
  match p with
  | PMatch m => dmatcher m
  | PNum l o v => node ["n"; "u"; "m"]%byte [dstr l; dop o; dfloat v]
  | PDur l o ns => node ["d"; "u"; "r"]%byte [dstr l; dop o; dec ns]
  | PBytes l o n => node ["b"; "y"; "t"]%byte [dstr l; dop o; dec n]
  | PIP l o pat => node ["i"; "p"]%byte [dstr l; dop o; dstr pat]
  | PBin a o b => node ["b"; "i"; "n"]%byte [dpred a; dop o; dpred b]
  | PParen a => node ["p"; "a"; "r"]%byte [dpred a]
  end.

Definition dstage (s : stage) : bytes :=
  match s with
  | SLine o v ip => node ["l"; "i"; "n"; "e"]%byte [dop o; dstr v; dbool ip; dstr (if is_re_op o && negb ip then v else [])]
  | SJson ls es => node ["j"; "s"; "o"; "n"]%byte [dlist dstr ls; dlist dpair es]
  | SLogfmt ls es => node ["l"; "o"; "g"; "f"; "m"; "t"]%byte [dlist dstr ls; dlist dpair es]
  | SRegexp src mp => node ["r"; "e"; "g"; "e"; "x"; "p"]%byte [dstr src; dlist (fun p => node ["c"%byte] [dec (fst p); dstr (snd p)]) mp]
  | SNilRegexp => node ["n"; "i"; "l"]%byte []
  | SPattern p => node ["p"; "a"; "t"; "t"; "e"; "r"; "n"]%byte [dstr p]
  | SUnpack => node ["u"; "n"; "p"; "a"; "c"; "k"]%byte []
  | SLineFormat t => node ["l"; "i"; "n"; "e"; "f"; "m"; "t"]%byte [dstr t]
  | SDecolorize => node ["d"; "e"; "c"; "o"; "l"; "o"; "r"]%byte []
  | SLabelFilter p => node ["f"; "i"; "l"; "t"; "e"; "r"]%byte [dpred p]
  | SLabelFormat rs ts => node ["l"; "a"; "b"; "e"; "l"; "f"; "m"; "t"]%byte [dlist dpair rs; dlist dpair ts]
  | SDrop ls ms => node ["d"; "r"; "o"; "p"]%byte [dlist dstr ls; dlist dmatcher ms]
  | SKeep ls ms => node ["k"; "e"; "e"; "p"]%byte [dlist dstr ls; dlist dmatcher ms]
  | SDistinct ls => node ["d"; "i"; "s"; "t"; "i"; "n"; "c"; "t"]%byte [dlist dstr ls]
  end.

Definition dgrouping (g : grouping) : bytes := node ["g"%byte] [dlist dstr (g_labels g); dbool (g_without g)].
Definition dunwrap (u : unwrap) : bytes := node ["u"%byte] [dstr (u_op u); dstr (u_label u); dlist dmatcher (u_filters u)].
Definition dlogrange (r : logrange) : bytes :=
  node ["r"%byte] [dlist dmatcher (r_sel r); dec (r_range r); dlist dstage (r_pipe r); dopt dunwrap (r_unwrap r); dopt dec (r_offset r)].
Definition dmodifier (m : modifier) : bytes :=
  node ["m"; "o"; "d"]%byte [dstr (bm_op m); dlist dstr (bm_oplabels m); dstr (bm_group m); dlist dstr (bm_include m); dbool (bm_bool m)].

Fixpoint dexpr (e : expr) : bytes :=
  match e with
  | ELog sel pipe => node ["l"; "o"; "g"]%byte [dlist dmatcher sel; dlist dstage pipe]
  | ERange op r param g => node ["r"; "a"; "n"; "g"; "e"]%byte [dec (rangeop_code op); dlogrange r; dopt dfloat param; dopt dgrouping g]
  | EVecAgg op e k g => node ["v"; "e"; "c"]%byte [dec (vectorop_code op); dexpr e; dopt dec k; dopt dgrouping g]
  | ELit v => node ["l"; "i"; "t"]%byte [dfloat v]
  | EVector v => node ["v"; "e"; "c"; "t"; "o"; "r"]%byte [dfloat v]
  | ELabelReplace e dst repl src re => node ["l"; "r"]%byte [dexpr e; dstr dst; dstr repl; dstr src; dstr re]
  | EBin l op m r => node ["b"; "i"; "n"]%byte [dexpr l; dop op; dmodifier m; dexpr r]
  | EParen e => node ["p"; "a"; "r"]%byte [dexpr e]
  end.
