(** Model of internal/dockerlog/daemonlog.go: decoding Docker's multiplexed log stream.

    A reader is a list of read events.  [Data c] delivers the bytes of [c]; a [Read(p)] call
    copies [min (len p) (len c)] of them and leaves the rest for the next call (so every
    fragmentation of the byte stream is a list of [Data] events).  [Eof] and [Fail] are sticky. *)
From LogQLV Require Import Base.Bytes.

Inductive event := Data (c : bytes) | Eof | Fail.
Definition reader := list event.
Inductive rstat := ROk | REof | RFail.

(** io.ReadFull / io.CopyN(bytes.Buffer): read exactly [n] bytes unless the reader ends or fails;
    neither over-reads. *)
Fixpoint read_n (n : Z) (r : reader) {struct r} : bytes * rstat * reader :=
  if n <=? 0 then ([], ROk, r) else
  match r with
  | [] => ([], REof, [])
  | Eof :: _ => ([], REof, r)
  | Fail :: _ => ([], RFail, r)
  | Data c :: r' =>
      if Z.of_nat (length c) <=? n then
        let '(b, st, r'') := read_n (n - Z.of_nat (length c)) r' in (c ++ b, st, r'')
      else (firstn (Z.to_nat n) c, ROk, Data (skipn (Z.to_nat n) c) :: r')
  end.

Definition be32 (b4 b5 b6 b7 : byte) : Z :=
  ((bz b4 * 256 + bz b5) * 256 + bz b6) * 256 + bz b7.

Definition space : byte := " "%byte.

(** strings.Cut(input, " ") *)
Fixpoint cut_space (s : bytes) : option (bytes * bytes) :=
  match s with
  | [] => None
  | b :: t => if byte_eqb b space then Some ([], t)
              else match cut_space t with
                   | Some (a, c) => Some (b :: a, c)
                   | None => None
                   end
  end.

Record frec := { f_ts : Z; f_line : bytes }.

Inductive endstate :=
| CleanEnd        (* Next returned false, Err() = nil *)
| ErrHeader       (* "read header" *)
| ErrBody         (* "read message" *)
| ErrDaemon       (* "daemon log stream error" *)
| ErrNoSpace      (* "parse log line: invalid line" *)
| ErrTimestamp.   (* "parse log line: parse timestamp" *)

Inductive step_result :=
| Rec (r : frec) (rest : reader)
| Stop (e : endstate) (rest : reader).

Section Decode.
  (** time.Parse(time.RFC3339Nano, s) followed by UnixNano: a library oracle *)
  Variable parse_ts : bytes -> option Z.

  Definition parse_line (payload : bytes) : endstate + frec :=
    match cut_space payload with
    | None => inl ErrNoSpace
    | Some (raw, line) =>
        match parse_ts raw with
        | None => inl ErrTimestamp
        | Some t => inr {| f_ts := t; f_line := line |}
        end
    end.

  (** streamIter.parseNext *)
  Definition parse_next (r : reader) : step_result :=
    match read_n 8 r with
    | (_, REof, r1) => Stop CleanEnd r1          (* io.EOF / io.ErrUnexpectedEOF: clean end *)
    | (_, RFail, r1) => Stop ErrHeader r1
    | (h, ROk, r1) =>
      match h with
      | [t; _; _; _; b4; b5; b6; b7] =>
        match read_n (be32 b4 b5 b6 b7) r1 with
        | (payload, ROk, r2) =>
            if bz t =? 3 then Stop ErrDaemon r2
            else match parse_line payload with
                 | inl e => Stop e r2
                 | inr rc => Rec rc r2
                 end
        | (_, _, r2) => Stop ErrBody r2
        end
      | _ => Stop ErrHeader r1   (* unreachable: read_n 8 with ROk returns 8 bytes *)
      end
    end.

  (** iterate Next until it returns false *)
  Fixpoint decode_fuel (fuel : nat) (r : reader) : list frec * endstate :=
    match fuel with
    | O => ([], ErrHeader)                        (* out of fuel; excluded by [decode] *)
    | S f =>
      match parse_next r with
      | Stop e _ => ([], e)
      | Rec rc r' => let '(rs, e) := decode_fuel f r' in (rc :: rs, e)
      end
    end.

  Fixpoint data_len (r : reader) : nat :=
    match r with
    | Data c :: r' => length c + data_len r'
    | _ => 0
    end.

  Definition decode (r : reader) : list frec * endstate := decode_fuel (S (data_len r)) r.
End Decode.

(** * Encoding (what the Docker daemon writes), used by the round-trip theorems *)

Definition byte_of_Z (z : Z) : byte :=
  match Byte.of_N (Z.to_N (z mod 256)) with Some b => b | None => x00 end.

Definition enc32 (n : Z) : bytes :=
  [byte_of_Z (n / 16777216); byte_of_Z (n / 65536); byte_of_Z (n / 256); byte_of_Z n].

Definition encode_frame (typ : byte) (payload : bytes) : bytes :=
  [typ; x00; x00; x00] ++ enc32 (Z.of_nat (length payload)) ++ payload.

Section Encode.
  Variable fmt_ts : Z -> bytes.
  Record erec := { e_typ : byte; e_rec : frec }.
  Definition encode_rec (r : erec) : bytes :=
    encode_frame (e_typ r) (fmt_ts (f_ts (e_rec r)) ++ space :: f_line (e_rec r)).
  Definition encode (rs : list erec) : bytes := concat (map encode_rec rs).
End Encode.
