(** Model of logqlpattern.Parse (internal/logql/logqlengine/logqlpattern/logqlpattern.go): the parser of `pattern` stage
    patterns (literal text with <name> captures).  Byte-level transliteration, exact for valid UTF-8 input (every byte the
    parser branches on is ASCII and WriteRune(Read()) copies a valid rune unchanged; an invalid byte would be rewritten to
    U+FFFD, such inputs are outside the fragment and are not generated). *)
From LogQLV Require Import Base.Bytes Model.Parser Model.Stages.

Definition lt_b : byte := "<"%byte.
Definition gt_b : byte := ">"%byte.

(** scanLiteral(prefix): returns the literal and the unread rest *)
Fixpoint scan_literal (fuel : nat) (acc : bytes) (s : bytes) : bytes * bytes :=
  match fuel with
  | O => (acc, s)
  | S f =>
    match s with
    | [] => (acc, [])
    | c :: t =>
        if byte_eqb c lt_b then
          match t with
          | d :: _ => if ident_start d then (acc, s) (* Unread: the capture starts here *) else scan_literal f (acc ++ [c]) t
          | [] => scan_literal f (acc ++ [c]) t
          end
        else scan_literal f (acc ++ [c]) t
    end
  end.

(** the label loop of scanCapture; [label] holds the bytes after the '<' *)
Fixpoint scan_label (fuel : nat) (label : bytes) (s : bytes) : ppart * bytes :=
  match fuel with
  | O => (PLit (lt_b :: label), s)
  | S f =>
    match s with
    | [] => (PLit (lt_b :: label), [])
    | c :: t =>
        if byte_eqb c gt_b then (PCap label, t)
        else if ident_rune c then scan_label f (label ++ [c]) t
        else let '(l, r) := scan_literal (S (length s)) (lt_b :: label) s in (PLit l, r)
    end
  end.

(** reader.Scan: None = io.EOF *)
Definition scan_part (s : bytes) : option (ppart * bytes) :=
  match s with
  | [] => None
  | c :: t =>
      if byte_eqb c lt_b then
        match t with
        | d :: _ => if ident_start d then Some (scan_label (S (length t)) [] t)
                    else let '(l, r) := scan_literal (S (length t)) [lt_b] t in Some (PLit l, r)
        | [] => let '(l, r) := scan_literal 1 [lt_b] t in Some (PLit l, r)
        end
      else let '(l, r) := scan_literal (S (length s)) [] s in Some (PLit l, r)
  end.

Fixpoint scan_all (fuel : nat) (s : bytes) (acc : list ppart) : list ppart :=
  match fuel with
  | O => acc
  | S f => match scan_part s with None => acc | Some (p, r) => scan_all f r (acc ++ [p]) end
  end.

Definition is_cap (p : ppart) : bool := match p with PCap _ => true | PLit _ => false end.
Definition underscore_name : bytes := ["_"%byte].

Fixpoint dup_capture (ps : list ppart) (seen : list bytes) : bool :=
  match ps with
  | [] => false
  | PCap n :: t => if bytes_eqb n underscore_name then dup_capture t seen
                   else if existsb (bytes_eqb n) seen then true else dup_capture t (n :: seen)
  | PLit _ :: t => dup_capture t seen
  end.
Fixpoint consecutive_captures (ps : list ppart) : bool :=
  match ps with
  | PCap _ :: ((PCap _ :: _) as t) => true
  | _ :: t => consecutive_captures t
  | [] => false
  end.

Definition parse_pattern (s : bytes) : option (list ppart) :=
  let ps := scan_all (S (length s)) s [] in
  match ps with
  | [] => None                                            (* pattern is empty *)
  | _ => if negb (existsb is_cap ps) then None            (* at least one capture is expected *)
         else if dup_capture ps [] then None
         else if consecutive_captures ps then None
         else Some ps
  end.
