(** Model of the log-query path of internal/logql/logqlengine: extractQueryConditions, the storage
    contract, entryIterator.Next (prefilter, pipeline with short-circuit, limit), groupEntries. *)
From LogQLV Require Import Base.Bytes Base.FloatX Base.LMap Base.Regex Base.Units Model.Tables Model.KeyToLabel Model.Stages.

Record record := { r_ts : Z; r_line : bytes; r_attrs : list (bytes * bytes); r_res : list (bytes * bytes) }.

Definition msg_label : bytes := ["m"; "s"; "g"]%byte.

(** LabelSet.SetFromRecord: body as "msg" (when non-empty), then record attributes, then resource
    attributes, keys sanitised, later writes override *)
Definition set_from_record (r : record) : lmap :=
  fold_left (fun m kv => lset m (key_to_label (fst kv)) (snd kv)) (r_attrs r ++ r_res r)
            (match r_line r with [] => [] | l => lset [] msg_label l end).

Record ematcher := { em_label : bytes; em_m : strm }.
Definition sel_ok (ls : lmap) (m : ematcher) : bool := str_match true (em_m m) (lget_or_empty ls (em_label m)).

(** QuerierCapabilities: which operators the storage evaluates itself *)
Record caps := { c_label : binop -> bool; c_line : binop -> bool }.

Record equery := { q_sel : list ematcher; q_pipe : list estage }.

(** extractQueryConditions: the line filters handed to the storage (up to the first stage that rewrites the
    line; since the fix of D12 a distinct stage is a barrier too, because what it has seen is state) *)
Fixpoint offload_lines (c : caps) (pipe : list estage) : list strm :=
  match pipe with
  | [] => []
  | ELine m :: t => if c_line c (sm_op m) then m :: offload_lines c t else offload_lines c t
  | ELineFormat _ :: _ | EDecolorize :: _ | EUnpack :: _ | EDistinct _ :: _ => []
  | _ :: t => offload_lines c t
  end.
(** before the fix of D12 *)
Fixpoint offload_lines_prefix (c : caps) (pipe : list estage) : list strm :=
  match pipe with
  | [] => []
  | ELine m :: t => if c_line c (sm_op m) then m :: offload_lines_prefix c t else offload_lines_prefix c t
  | ELineFormat _ :: _ | EDecolorize :: _ | EUnpack :: _ => []
  | _ :: t => offload_lines_prefix c t
  end.

Definition offloaded_sel (c : caps) (sel : list ematcher) : list ematcher := filter (fun m => c_label c (sm_op (em_m m))) sel.
Definition prefilter_sel (c : caps) (sel : list ematcher) : list ematcher := filter (fun m => negb (c_label c (sm_op (em_m m)))) sel.

(** the storage contract: the records satisfying everything that was offloaded, in delivery order *)
Definition storage_select (ms : list ematcher) (lfs : list strm) (recs : list record) : list record :=
  filter (fun r => forallb (sel_ok (set_from_record r)) ms && forallb (fun m => str_match false m (r_line r)) lfs) recs.

(** Pipeline.Process: stages in order, stop at the first that rejects; one distinct-state per stage *)
Fixpoint run_stages (o : oracles) (stages : list estage) (sts : list dstate) (ts : Z) (line : bytes) (ls : lmap)
  : option (list dstate * option (bytes * lmap)) :=
  match stages, sts with
  | [], _ => Some ([], Some (line, ls))
  | s :: rest, st :: sts' =>
    match process o s st ts line ls with
    | None => None
    | Some (st', line', keep, ls') =>
      if keep then
        match run_stages o rest sts' ts line' ls' with
        | None => None
        | Some (sts'', r) => Some (st' :: sts'', r)
        end
      else Some (st' :: sts', None)
    end
  | _ :: _, [] => None
  end.

Record entry := { e_ts : Z; e_line : bytes; e_set : lmap }.

(** entryIterator.Next driven to exhaustion: the entries emitted, in order *)
Fixpoint iterate (o : oracles) (pre : list ematcher) (stages : list estage) (limit : Z)
                 (recs : list record) (sts : list dstate) (count : Z) : option (list entry) :=
  match recs with
  | [] => Some []
  | r :: t =>
    if (0 <? limit) && (limit <=? count) then Some [] else
    let ls := set_from_record r in
    if negb (forallb (sel_ok ls) pre) then iterate o pre stages limit t sts count else
    match run_stages o stages sts (r_ts r) (r_line r) ls with
    | None => None
    | Some (sts', None) => iterate o pre stages limit t sts' count
    | Some (sts', Some (line', ls')) =>
      match iterate o pre stages limit t sts' (count + 1) with
      | None => None
      | Some es => Some ({| e_ts := r_ts r; e_line := line'; e_set := ls' |} :: es)
      end
    end
  end.

Definition init_states (stages : list estage) : list dstate := map (fun _ => []) stages.

(** Engine.evalLogExpr up to grouping *)
Definition eval_log (o : oracles) (c : caps) (q : equery) (limit : Z) (recs : list record) : option (list entry) :=
  let stored := storage_select (offloaded_sel c (q_sel q)) (offload_lines c (q_pipe q)) recs in
  iterate o (prefilter_sel c (q_sel q)) (q_pipe q) limit stored (init_states (q_pipe q)) 0.

(** the same with the pre-D12 offloading rule *)
Definition eval_log_prefix (o : oracles) (c : caps) (q : equery) (limit : Z) (recs : list record) : option (list entry) :=
  let stored := storage_select (offloaded_sel c (q_sel q)) (offload_lines_prefix c (q_pipe q)) recs in
  iterate o (prefilter_sel c (q_sel q)) (q_pipe q) limit stored (init_states (q_pipe q)) 0.

(** groupEntries: one stream per label set (first-seen order), values sorted by timestamp *)
Definition stream := (lmap * list (Z * bytes))%type.

Fixpoint add_to_stream (ss : list stream) (e : entry) : list stream :=
  match ss with
  | [] => [(e_set e, [(e_ts e, e_line e)])]
  | (ls, vs) :: t => if lmap_eqb ls (e_set e) then (ls, vs ++ [(e_ts e, e_line e)]) :: t else (ls, vs) :: add_to_stream t e
  end.

Fixpoint insert_val (v : Z * bytes) (l : list (Z * bytes)) : list (Z * bytes) :=
  match l with
  | [] => [v]
  | x :: t => if fst v <? fst x then v :: l else x :: insert_val v t
  end.
Definition sort_vals (l : list (Z * bytes)) : list (Z * bytes) := fold_right insert_val [] (rev l).

Definition group_entries (es : list entry) : list stream :=
  map (fun s => (fst s, sort_vals (snd s))) (fold_left add_to_stream es []).
