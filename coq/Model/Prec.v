(** Operator chains: the conventional reading (spec) and what the precedence-climbing loops of
    parseBinOp produce, over abstract operands. *)
From LogQLV Require Import Base.Bytes Base.FloatX Model.Tables Model.Syntax Model.Parser.

(** binary trees over operand indices *)
Inductive tree := Leaf (i : nat) | Node (l : tree) (o : binop) (r : tree).

(** [k]-th operand as tokens: vector(<k>) — and as the expression it parses to *)
Definition num_text (k : nat) : bytes := dec (Z.of_nat k).
Definition operand_tokens (k : nat) : list token :=
  [ {| ty := TVector; text := []; v_float := None; v_int := None; v_dur := None; v_bytes := None; v_re := None; v_re_anch := false |};
    {| ty := TOpenParen; text := []; v_float := None; v_int := None; v_dur := None; v_bytes := None; v_re := None; v_re_anch := false |};
    {| ty := TNumber; text := num_text k; v_float := Some (float_of_Z (Z.of_nat k)); v_int := Some (Z.of_nat k); v_dur := None; v_bytes := None; v_re := None; v_re_anch := false |};
    {| ty := TCloseParen; text := []; v_float := None; v_int := None; v_dur := None; v_bytes := None; v_re := None; v_re_anch := false |} ].
Definition operand_expr (k : nat) : expr := EVector (float_of_Z (Z.of_nat k)).

Definition op_token (o : binop) : token :=
  let t := match o with
           | OpAnd => TAnd | OpOr => TOr | OpUnless => TUnless
           | OpAdd => TAdd | OpSub => TSub | OpMul => TMul | OpDiv => TDiv | OpMod => TMod | OpPow => TPow
           | OpEq => TCmpEq | OpNotEq => TNotEq | OpGt => TGt | OpGte => TGte | OpLt => TLt | OpLte => TLte
           | OpRe => TRe | OpNotRe => TNotRe
           end in
  {| ty := t; text := []; v_float := None; v_int := None; v_dur := None; v_bytes := None; v_re := None; v_re_anch := false |}.

(** the fifteen binary operators of metric expressions *)
Definition chain_ops : list binop :=
  [OpOr; OpAnd; OpUnless; OpAdd; OpSub; OpMul; OpDiv; OpMod; OpPow; OpEq; OpNotEq; OpGt; OpGte; OpLt; OpLte].

(** tokens of  e0 op1 e1 op2 e2 ...  *)
Fixpoint chain_tokens_from (k : nat) (ops : list binop) : list token :=
  match ops with
  | [] => []
  | o :: t => op_token o :: operand_tokens k ++ chain_tokens_from (S k) t
  end.
Definition chain_tokens (ops : list binop) : list token := operand_tokens 0 ++ chain_tokens_from 1 ops.

Fixpoint tree_expr (t : tree) : expr :=
  match t with
  | Leaf i => operand_expr i
  | Node l o r => EBin (tree_expr l) o empty_mod (tree_expr r)
  end.

(** * The conventional reading
    split at the operator that binds weakest; among equally weak ones at the LAST for left-associative
    operators and at the FIRST for the right-associative ^ *)
Definition right_assoc (o : binop) : bool := binop_eqb o OpPow.

(** index of the split operator in [ops] *)
Fixpoint split_index (ops : list binop) (i : nat) (best : option (nat * binop)) : option nat :=
  match ops with
  | [] => option_map fst best
  | o :: t =>
    let best' :=
      match best with
      | None => Some (i, o)
      | Some (_, b) =>
          if precedence o <? precedence b then Some (i, o)
          else if (precedence o =? precedence b) && negb (right_assoc o) then Some (i, o)
          else best
      end in
    split_index t (S i) best'
  end.

Fixpoint conv_tree_fuel (fuel : nat) (first : nat) (ops : list binop) : tree :=
  match fuel with
  | O => Leaf first
  | S f =>
    match split_index ops 0 None with
    | None => Leaf first
    | Some k =>
      match nth_error ops k with
      | None => Leaf first
      | Some o => Node (conv_tree_fuel f first (firstn k ops)) o (conv_tree_fuel f (first + k + 1) (skipn (S k) ops))
      end
    end
  end.
Definition conv_tree (ops : list binop) : tree := conv_tree_fuel (S (length ops)) 0 ops.

(** * What the code does: every operator groups to the right among equals
    (split at the FIRST weakest operator, whatever its associativity) *)
Fixpoint split_index_asis (ops : list binop) (i : nat) (best : option (nat * binop)) : option nat :=
  match ops with
  | [] => option_map fst best
  | o :: t =>
    let best' :=
      match best with
      | None => Some (i, o)
      | Some (_, b) => if precedence o <? precedence b then Some (i, o) else best
      end in
    split_index_asis t (S i) best'
  end.

Fixpoint asis_tree_fuel (fuel : nat) (first : nat) (ops : list binop) : tree :=
  match fuel with
  | O => Leaf first
  | S f =>
    match split_index_asis ops 0 None with
    | None => Leaf first
    | Some k =>
      match nth_error ops k with
      | None => Leaf first
      | Some o => Node (asis_tree_fuel f first (firstn k ops)) o (asis_tree_fuel f (first + k + 1) (skipn (S k) ops))
      end
    end
  end.
Definition asis_tree (ops : list binop) : tree := asis_tree_fuel (S (length ops)) 0 ops.

(** two left-associative operators of equal precedence with nothing weaker between them:
    the chains on which the two readings can differ (known finding D11) *)
Fixpoint weaker_before_equal (p : Z) (ops : list binop) : bool :=
  (* true iff scanning [ops] meets an operator of precedence = p before one of precedence < p *)
  match ops with
  | [] => false
  | o :: t => if precedence o <? p then false
              else if precedence o =? p then true
              else weaker_before_equal p t
  end.
Fixpoint known_region (ops : list binop) : bool :=
  match ops with
  | [] => false
  | o :: t => (negb (right_assoc o) && weaker_before_equal (precedence o) t) || known_region t
  end.

Fixpoint tree_eqb (a b : tree) : bool :=
  match a, b with
  | Leaf i, Leaf j => Nat.eqb i j
  | Node l1 o1 r1, Node l2 o2 r2 => tree_eqb l1 l2 && binop_eqb o1 o2 && tree_eqb r1 r2
  | _, _ => false
  end.

(** all operator sequences of length n over [chain_ops] *)
Fixpoint all_seqs (n : nat) : list (list binop) :=
  match n with
  | O => [[]]
  | S n' => flat_map (fun s => map (fun o => o :: s) chain_ops) (all_seqs n')
  end.
Definition all_chains_upto4 : list (list binop) := all_seqs 0 ++ all_seqs 1 ++ all_seqs 2 ++ all_seqs 3 ++ all_seqs 4.

Definition parsed_tree_is (ops : list binop) (t : tree) : bool :=
  match parse_tokens (chain_tokens ops) with
  | Parsed e => bytes_eqb (dexpr e) (dexpr (tree_expr t))
  | _ => false
  end.
