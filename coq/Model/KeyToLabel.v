(** Model of otelstorage.KeyToLabel (internal/otelstorage/attrs.go). *)
From LogQLV Require Import Base.Bytes Base.Utf8.

Definition is_digit_r (r : Z) : bool := (48 <=? r) && (r <=? 57).
Definition is_alpha_r (r : Z) : bool := ((97 <=? r) && (r <=? 122)) || ((65 <=? r) && (r <=? 90)).
Definition ok_rune (r : Z) : bool := (r =? 95) || is_digit_r r || is_alpha_r r.

Definition underscore : byte := "_"%byte.

(** the "slow:" loop: every rune that is not [_0-9A-Za-z] becomes one '_' *)
Fixpoint slow_fuel (fuel : nat) (s : bytes) : bytes :=
  match fuel with
  | O => []
  | S f =>
    match decode_rune s with
    | None => []
    | Some (r, w) =>
        (if ok_rune r then firstn w s else [underscore]) ++ slow_fuel f (skipn w s)
    end
  end.
Definition slow (s : bytes) : bytes := slow_fuel (length s) s.

(** the first loop: [i] is the byte offset, [pre] = key[:i] reversed is implicit:
    we carry the already scanned valid prefix *)
Fixpoint fast_fuel (fuel : nat) (first : bool) (pre rest : bytes) : bytes :=
  match fuel with
  | O => pre ++ rest
  | S f =>
    match decode_rune rest with
    | None => pre                         (* loop finished: return key *)
    | Some (r, w) =>
      if is_digit_r r then
        if first then underscore :: slow rest     (* i = 0: write "_", goto slow with key unchanged *)
        else fast_fuel f false (pre ++ firstn w rest) (skipn w rest)
      else if (r =? 95) || is_alpha_r r then
        fast_fuel f false (pre ++ firstn w rest) (skipn w rest)
      else pre ++ slow rest                       (* label = key[:i]; key = key[i:]; goto slow *)
    end
  end.

Definition key_to_label (key : bytes) : bytes := fast_fuel (length key) true [] key.

(** validity of a LogQL label name as the property states it *)
Definition ok_byte (b : byte) : bool := ok_rune (bz b).
Definition valid_label (s : bytes) : bool :=
  forallb ok_byte s &&
  match s with
  | [] => true
  | b :: _ => negb (is_digit_r (bz b))
  end.
