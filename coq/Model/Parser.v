(** Token-level model of the recursive-descent parser of internal/logql (parser*.go).
    Library results attached to a token (ParseFloat, Atoi, ParseDuration, ParseBytes, regexp.Compile)
    are oracle fields of the token: the parser logic itself is transliterated. *)
From LogQLV Require Import Base.Bytes Base.FloatX Model.Tables Model.Syntax.

Record token := {
  ty : ttype;
  text : bytes;
  v_float : option float;           (* strconv.ParseFloat(text, 64) *)
  v_int : option Z;                 (* strconv.Atoi(text) *)
  v_dur : option Z;                 (* lexerql.ParseDuration(text), ns *)
  v_bytes : option Z;               (* humanize.ParseBytes(text) *)
  v_re : option (list bytes);       (* regexp.Compile(text): SubexpNames() *)
  v_re_anch : bool;                 (* regexp.Compile("^(?:" + text + ")$") succeeds *)
}.

Definition eof_tok : token :=
  {| ty := TEOF; text := []; v_float := None; v_int := None; v_dur := None; v_bytes := None; v_re := None; v_re_anch := false |}.

Record pstate := { prev : list token; rest : list token }.

Inductive pres (A : Type) :=
| POk (a : A) (s : pstate)
| PErr
| PFuel.
Arguments POk {A}. Arguments PErr {A}. Arguments PFuel {A}.

Definition M (A : Type) := pstate -> pres A.
Definition ret {A} (a : A) : M A := fun s => POk a s.
Definition fail {A} : M A := fun _ => PErr.
Definition bind {A B} (m : M A) (k : A -> M B) : M B :=
  fun s => match m s with POk a s' => k a s' | PErr => PErr | PFuel => PFuel end.
Notation "'do' x <- m ; k" := (bind m (fun x => k)) (at level 200, x pattern, m at level 100, k at level 200).
Notation "m ;; k" := (bind m (fun _ => k)) (at level 199, right associativity).

Definition peek : M token := fun s => POk (match rest s with [] => eof_tok | t :: _ => t end) s.
Definition next : M token := fun s =>
  match rest s with
  | [] => POk eof_tok s
  | t :: r => POk t {| prev := t :: prev s; rest := r |}
  end.
Definition unread : M unit := fun s =>
  match prev s with
  | [] => POk tt s
  | t :: p => POk tt {| prev := p; rest := t :: rest s |}
  end.

(** p.peekAt(1) *)
Definition peek2 : M token := fun s => POk (match rest s with _ :: t :: _ => t | _ => eof_tok end) s.

Definition is_ty (t : token) (k : ttype) : bool := ttype_eqb (ty t) k.
Definition consume (k : ttype) : M unit := do t <- next; if is_ty t k then ret tt else fail.
Definition consume_text (k : ttype) : M token := do t <- next; if is_ty t k then ret t else fail.
Definition of_opt {A} (o : option A) : M A := match o with Some a => ret a | None => fail end.

Definition parse_ident : M bytes := do t <- consume_text TIdent; ret (text t).
Definition parse_string : M bytes := do t <- consume_text TString; ret (text t).
Definition parse_string_tok : M token := consume_text TString.
Definition parse_number : M float := do t <- consume_text TNumber; of_opt (v_float t).
Definition parse_int : M Z := do t <- consume_text TNumber; of_opt (v_int t).
Definition parse_duration : M Z := do t <- consume_text TDuration; of_opt (v_dur t).
Definition parse_bytes : M Z := do t <- consume_text TBytes; of_opt (v_bytes t).

(** logql.IsValidLabel(name, allowDots=false) *)
Definition ident_start (b : byte) : bool :=
  ((97 <=? bz b) && (bz b <=? 122)) || ((65 <=? bz b) && (bz b <=? 90)) || (bz b =? 95).
Definition ident_rune (b : byte) : bool := ident_start b || ((48 <=? bz b) && (bz b <=? 57)).
Definition is_valid_label (s : bytes) : bool :=
  match s with [] => false | b :: _ => ident_start b && forallb ident_rune s end.

(** parseLabelMatcher *)
Definition parse_label_matcher : M matcher :=
  do l <- parse_ident;
  do t <- next;
  do op <- (if is_ty t TEq then ret OpEq else if is_ty t TNotEq then ret OpNotEq
            else if is_ty t TRe then ret OpRe else if is_ty t TNotRe then ret OpNotRe else fail);
  do v <- parse_string_tok;
  match op with
  | OpRe | OpNotRe => if v_re_anch v then ret {| m_label := l; m_op := op; m_value := text v |} else fail
  | _ => ret {| m_label := l; m_op := op; m_value := text v |}
  end.

(** parseSelector.  Since the fix of D29 a keyword token in label-name position of a selector (anything but a String whose
    text is a valid label name: by, on, json, ...) is re-typed to Ident before the matcher is parsed. *)
Definition retype_kw : M unit := fun s =>
  match rest s with
  | t :: r =>
      if negb (is_ty t TString) && is_valid_label (text t)
      then POk tt {| prev := prev s;
                     rest := {| ty := TIdent; text := text t; v_float := v_float t; v_int := v_int t; v_dur := v_dur t;
                                v_bytes := v_bytes t; v_re := v_re t; v_re_anch := v_re_anch t |} :: r |}
      else POk tt s
  | [] => POk tt s
  end.

Fixpoint matchers_loop (fuel : nat) (acc : list matcher) : M (list matcher) :=
  match fuel with
  | O => fun _ => PFuel
  | S f =>
    retype_kw ;;
    do m <- parse_label_matcher;
    do t <- next;
    if is_ty t TCloseBrace then ret (acc ++ [m])
    else if is_ty t TComma then matchers_loop f (acc ++ [m])
    else fail
  end.

Fixpoint parse_selector (fuel : nat) : M (list matcher) :=
  match fuel with
  | O => fun _ => PFuel
  | S f =>
    do t <- next;
    if is_ty t TOpenParen then
      do s <- parse_selector f; consume TCloseParen ;; ret s
    else if is_ty t TOpenBrace then
      do t2 <- peek;
      if is_ty t2 TCloseBrace then next ;; ret [] else matchers_loop f []
    else fail
  end.

(** parseLineFilter *)
Definition parse_line_filter : M stage :=
  do t <- next;
  do op <- (if is_ty t TPipeExact then ret OpEq else if is_ty t TPipeMatch then ret OpRe
            else if is_ty t TNotEq then ret OpNotEq else if is_ty t TNotRe then ret OpNotRe else fail);
  do t2 <- peek;
  if is_ty t2 TString then
    do v <- parse_string_tok;
    match op with
    | OpRe | OpNotRe => match v_re v with Some _ => ret (SLine op (text v) false) | None => fail end
    | _ => ret (SLine op (text v) false)
    end
  else if is_ty t2 TIP then
    next ;;
    match op with
    | OpEq | OpNotEq =>
        consume TOpenParen ;; do v <- parse_string; consume TCloseParen ;; ret (SLine op v true)
    | _ => fail
    end
  else fail.

(** parseLabelExtraction *)
Fixpoint label_extraction (fuel : nat) (ls : list bytes) (es : list (bytes * bytes)) : M (list bytes * list (bytes * bytes)) :=
  match fuel with
  | O => fun _ => PFuel
  | S f =>
    do t <- peek;
    if negb (is_ty t TIdent) then ret (ls, es) else
    do l <- parse_ident;
    do t2 <- peek;
    if is_ty t2 TComma then
      (* labels = append(labels, label); consume comma; expect a label *)
      next ;; do t3 <- peek; if is_ty t3 TIdent then label_extraction f (ls ++ [l]) es else fail
    else if is_ty t2 TEq then
      next ;; do e <- parse_string;
      do t3 <- peek;
      if negb (is_ty t3 TComma) then label_extraction f ls (es ++ [(l, e)])
      else next ;; do t4 <- peek; if is_ty t4 TIdent then label_extraction f ls (es ++ [(l, e)]) else fail
    else label_extraction f (ls ++ [l]) es
  end.

(** parseRegexpLabelParser *)
Fixpoint regexp_mapping (names : list bytes) (i : Z) (seen : list bytes) (acc : list (Z * bytes)) : option (option (list (Z * bytes))) :=
  (* Some (Some m) = mapping; Some None = (nil, nil) returned on a duplicate name; None = error *)
  match names with
  | [] => Some (Some acc)
  | n :: t =>
    match n with
    | [] => regexp_mapping t (i + 1) seen acc
    | _ => if existsb (bytes_eqb n) seen then Some None
           else if is_valid_label n then regexp_mapping t (i + 1) (n :: seen) (acc ++ [(i, n)])
           else None
    end
  end.

Definition parse_regexp_stage : M stage :=
  do v <- parse_string_tok;
  match v_re v with
  | None => fail
  | Some names =>
    match regexp_mapping names 0 [] [] with
    | None => fail
    | Some None => fail   (* errors.Wrapf(nil, ...) of go-faster/errors is a non-nil error *)
    | Some (Some m) => ret (SRegexp (text v) m)
    end
  end.

(** parseLabelPredicate *)
Definition cmp_tok (t : token) : option binop :=
  if is_ty t TEq then Some OpEq else if is_ty t TCmpEq then Some OpEq else if is_ty t TNotEq then Some OpNotEq
  else if is_ty t TRe then Some OpRe else if is_ty t TNotRe then Some OpNotRe
  else if is_ty t TGt then Some OpGt else if is_ty t TGte then Some OpGte
  else if is_ty t TLt then Some OpLt else if is_ty t TLte then Some OpLte else None.

Definition string_op_tok (t : token) : bool := is_ty t TEq || is_ty t TNotEq || is_ty t TRe || is_ty t TNotRe.
Definition num_op_tok (t : token) : bool :=
  is_ty t TCmpEq || is_ty t TNotEq || is_ty t TLt || is_ty t TLte || is_ty t TGt || is_ty t TGte.

(** `and` binds tighter than `or` (since the fix of D34): p and (x or y), with the right operand not parenthesised, is (p and x) or y *)
Definition and_join (p r : pred) : pred :=
  match r with
  | PBin x OpOr y => PBin (PBin p OpAnd x) OpOr y
  | _ => PBin p OpAnd r
  end.

Fixpoint parse_label_predicate (fuel : nat) : M pred :=
  match fuel with
  | O => fun _ => PFuel
  | S f =>
    do t <- next;
    do p <- (if is_ty t TOpenParen then
               do lp <- parse_label_predicate f; consume TCloseParen ;; ret (PParen lp)
             else if is_ty t TIdent then
               do optok <- next;
               do op <- of_opt (cmp_tok optok);
               do lit <- peek;
               if is_ty lit TString then
                 if negb (string_op_tok optok) then fail else
                 do v <- parse_string_tok;
                 match op with
                 | OpRe | OpNotRe => if v_re_anch v then ret (PMatch {| m_label := text t; m_op := op; m_value := text v |}) else fail
                 | _ => ret (PMatch {| m_label := text t; m_op := op; m_value := text v |})
                 end
               else if is_ty lit TNumber then
                 if negb (num_op_tok optok) then fail else do v <- parse_number; ret (PNum (text t) op v)
               else if is_ty lit TDuration then
                 if negb (num_op_tok optok) then fail else do v <- parse_duration; ret (PDur (text t) op v)
               else if is_ty lit TBytes then
                 if negb (num_op_tok optok) then fail else do v <- parse_bytes; ret (PBytes (text t) op v)
               else if is_ty lit TIP then
                 if negb (is_ty optok TCmpEq || is_ty optok TNotEq) then fail else
                 next ;; consume TOpenParen ;; do v <- parse_string; consume TCloseParen ;; ret (PIP (text t) op v)
               else fail
             else fail);
    do nt <- next;
    if is_ty nt TIdent then unread ;; do r <- parse_label_predicate f; ret (and_join p r)
    else if is_ty nt TComma || is_ty nt TAnd then do r <- parse_label_predicate f; ret (and_join p r)
    else if is_ty nt TOr then do r <- parse_label_predicate f; ret (PBin p OpOr r)
    else if is_ty nt TEOF then ret p
    else unread ;; ret p
  end.

(** parseLabelFormatExpr *)
Fixpoint label_format_loop (fuel : nat) (seen : list bytes) (rs ts : list (bytes * bytes)) : M stage :=
  match fuel with
  | O => fun _ => PFuel
  | S f =>
    do l <- consume_text TIdent;
    if existsb (bytes_eqb (text l)) seen then fail else
    consume TEq ;;
    do t <- peek;
    do acc <- (if is_ty t TIdent then do v <- parse_ident; ret (rs ++ [(v, text l)], ts)    (* RenameLabel{Label: src, To: dst} since the fix of D3 *)
               else if is_ty t TString then do v <- parse_string; ret (rs, ts ++ [(text l, v)])
               else fail);
    do t2 <- peek;
    if negb (is_ty t2 TComma) then ret (SLabelFormat (fst acc) (snd acc))
    else next ;; label_format_loop f (text l :: seen) (fst acc) (snd acc)
  end.

(** parseLabelsAndMatchers *)
Fixpoint labels_and_matchers (fuel : nat) (ls : list bytes) (ms : list matcher) : M (list bytes * list matcher) :=
  match fuel with
  | O => fun _ => PFuel
  | S f =>
    consume TIdent ;;
    do t <- peek;
    do acc <- (if is_ty t TEq || is_ty t TNotEq || is_ty t TRe || is_ty t TNotRe
               then unread ;; do m <- parse_label_matcher; ret (ls, ms ++ [m])
               else unread ;; do l <- parse_ident; ret (ls ++ [l], ms));
    do t2 <- peek;
    if negb (is_ty t2 TComma) then ret acc else next ;; labels_and_matchers f (fst acc) (snd acc)
  end.

Fixpoint distinct_loop (fuel : nat) (ls : list bytes) : M stage :=
  match fuel with
  | O => fun _ => PFuel
  | S f =>
    do l <- parse_ident;
    do t <- peek;
    if negb (is_ty t TComma) then ret (SDistinct (ls ++ [l])) else next ;; distinct_loop f (ls ++ [l])
  end.

(** parsePipeline(allowUnwrap) *)
Fixpoint parse_pipeline (fuel : nat) (allow_unwrap : bool) (acc : list stage) : M (list stage) :=
  match fuel with
  | O => fun _ => PFuel
  | S f =>
    do t <- peek;
    if is_ty t TPipeExact || is_ty t TPipeMatch || is_ty t TNotEq || is_ty t TNotRe then
      do lf <- parse_line_filter; parse_pipeline f allow_unwrap (acc ++ [lf])
    else if is_ty t TPipe then
      next ;;
      do t2 <- next;
      if is_ty t2 TJSON then do le <- label_extraction f [] []; parse_pipeline f allow_unwrap (acc ++ [SJson (fst le) (snd le)])
      else if is_ty t2 TLogfmt then do le <- label_extraction f [] []; parse_pipeline f allow_unwrap (acc ++ [SLogfmt (fst le) (snd le)])
      else if is_ty t2 TRegexp then do st <- parse_regexp_stage; parse_pipeline f allow_unwrap (acc ++ [st])
      else if is_ty t2 TPattern then do p <- parse_string; parse_pipeline f allow_unwrap (acc ++ [SPattern p])
      else if is_ty t2 TUnpack then parse_pipeline f allow_unwrap (acc ++ [SUnpack])
      else if is_ty t2 TLineFormat then do p <- parse_string; parse_pipeline f allow_unwrap (acc ++ [SLineFormat p])
      else if is_ty t2 TDecolorize then parse_pipeline f allow_unwrap (acc ++ [SDecolorize])
      else if is_ty t2 TIdent || is_ty t2 TOpenParen then
        unread ;; do p <- parse_label_predicate f; parse_pipeline f allow_unwrap (acc ++ [SLabelFilter p])
      else if is_ty t2 TLabelFormat then do st <- label_format_loop f [] [] []; parse_pipeline f allow_unwrap (acc ++ [st])
      else if is_ty t2 TKeep then do lm <- labels_and_matchers f [] []; parse_pipeline f allow_unwrap (acc ++ [SKeep (fst lm) (snd lm)])
      else if is_ty t2 TDrop then do lm <- labels_and_matchers f [] []; parse_pipeline f allow_unwrap (acc ++ [SDrop (fst lm) (snd lm)])
      else if is_ty t2 TDistinct then do st <- distinct_loop f []; parse_pipeline f allow_unwrap (acc ++ [st])
      else if is_ty t2 TUnwrap && allow_unwrap then unread ;; ret acc
      else fail
    else ret acc
  end.

(** parseLabels: "(" [ident {"," ident}] ")" *)
Fixpoint labels_loop (fuel : nat) (acc : list bytes) : M (list bytes) :=
  match fuel with
  | O => fun _ => PFuel
  | S f =>
    do l <- parse_ident;
    do t <- next;
    if is_ty t TCloseParen then ret (acc ++ [l])
    else if is_ty t TComma then labels_loop f (acc ++ [l])
    else fail
  end.
Definition parse_labels (fuel : nat) : M (list bytes) :=
  consume TOpenParen ;;
  do t <- peek;
  if is_ty t TCloseParen then next ;; ret [] else labels_loop fuel [].

Definition parse_grouping (fuel : nat) : M grouping :=
  do t <- next;
  do w <- (if is_ty t TBy then ret false else if is_ty t TWithout then ret true else fail);
  do ls <- parse_labels fuel;
  ret {| g_labels := ls; g_without := w |}.

(** parseBinOpModifier *)
Definition empty_mod : modifier := {| bm_op := []; bm_oplabels := []; bm_group := []; bm_include := []; bm_bool := false |}.
Definition parse_modifier (fuel : nat) : M modifier :=
  do t0 <- peek;
  do rb <- (if is_ty t0 TBool then next ;; ret true else ret false);
  do t <- peek;
  if negb (is_ty t TOn || is_ty t TIgnoring) then ret {| bm_op := []; bm_oplabels := []; bm_group := []; bm_include := []; bm_bool := rb |}
  else
    let opname := if is_ty t TOn then ["o"; "n"]%byte else ["i"; "g"; "n"; "o"; "r"; "i"; "n"; "g"]%byte in
    next ;;
    do ols <- parse_labels fuel;
    do t2 <- peek;
    if negb (is_ty t2 TGroupLeft || is_ty t2 TGroupRight) then
      ret {| bm_op := opname; bm_oplabels := ols; bm_group := []; bm_include := []; bm_bool := rb |}
    else
      let grp := if is_ty t2 TGroupLeft then ["l"; "e"; "f"; "t"]%byte else ["r"; "i"; "g"; "h"; "t"]%byte in
      let base := {| bm_op := opname; bm_oplabels := ols; bm_group := grp; bm_include := []; bm_bool := rb |} in
      next ;;
      do t3 <- peek;
      if negb (is_ty t3 TOpenParen) then ret base else
      next ;;
      do t4 <- peek;
      if is_ty t4 TCloseParen then next ;; ret base
      else if is_ty t4 TIdent then
        unread ;; do inc <- parse_labels fuel;
        ret {| bm_op := opname; bm_oplabels := ols; bm_group := grp; bm_include := inc; bm_bool := rb |}
      else unread ;; ret base.

(** parseUnwrapExpr *)
Fixpoint unwrap_filters (fuel : nat) (acc : list matcher) : M (list matcher) :=
  match fuel with
  | O => fun _ => PFuel
  | S f =>
    do t <- peek;
    if negb (is_ty t TPipe) then ret acc else
    next ;; do m <- parse_label_matcher; unwrap_filters f (acc ++ [m])
  end.

Definition parse_unwrap (fuel : nat) : M unwrap :=
  consume TUnwrap ;;
  do t <- peek;
  do ol <- (if is_ty t TIdent then do l <- parse_ident; ret ([], l)
            else if is_ty t TBytesConv || is_ty t TDurationConv || is_ty t TDurationSecondsConv then
              next ;; consume TOpenParen ;; do l <- parse_ident; consume TCloseParen ;; ret (text t, l)
            else fail);
  do fs <- unwrap_filters fuel [];
  ret {| u_op := fst ol; u_label := snd ol; u_filters := fs |}.

(** parseRangeExpr *)
Definition parse_range_offset : M (Z * option Z) :=
  consume TOpenBracket ;;
  do r <- parse_duration;
  consume TCloseBracket ;;
  do t <- peek;
  if is_ty t TOffset then next ;; do o <- parse_duration; ret (r, Some o) else ret (r, None).

Definition parse_pipeline_unwrap (fuel : nat) : M (list stage * option unwrap) :=
  do pl <- parse_pipeline fuel true [];
  do t <- peek;
  if is_ty t TUnwrap then do u <- parse_unwrap fuel; ret (pl, Some u) else ret (pl, None).

Definition parse_range_expr (fuel : nat) : M logrange :=
  do sel <- parse_selector fuel;
  do t <- peek;
  if is_ty t TOpenBracket then
    do ro <- parse_range_offset;
    do pu <- parse_pipeline_unwrap fuel;
    ret {| r_sel := sel; r_range := fst ro; r_pipe := fst pu; r_unwrap := snd pu; r_offset := snd ro |}
  else if is_ty t TPipe || is_ty t TPipeExact || is_ty t TPipeMatch || is_ty t TNotEq || is_ty t TNotRe then
    do pu <- parse_pipeline_unwrap fuel;
    do ro <- parse_range_offset;
    ret {| r_sel := sel; r_range := fst ro; r_pipe := fst pu; r_unwrap := snd pu; r_offset := snd ro |}
  else fail.

(** validate() of RangeAggregationExpr / VectorAggregationExpr *)
Definition in_ops {A} (code : A -> Z) (o : A) (l : list A) : bool := existsb (fun x => code x =? code o) l.

Definition range_validate (op : rangeop) (param : option float) (g : option grouping) (unw : bool) : bool :=
  let isq := rangeop_code op =? rangeop_code RangeOpQuantile in
  (match param with Some _ => isq | None => negb isq end) &&
  (match g with
   | Some _ => in_ops rangeop_code op [RangeOpAvg; RangeOpStddev; RangeOpStdvar; RangeOpQuantile; RangeOpMax; RangeOpMin; RangeOpFirst; RangeOpLast]
   | None => true
   end) &&
  (if unw then in_ops rangeop_code op [RangeOpAvg; RangeOpSum; RangeOpMax; RangeOpMin; RangeOpStddev; RangeOpStdvar; RangeOpQuantile;
                                       RangeOpRate; RangeOpRateCounter; RangeOpAbsent; RangeOpFirst; RangeOpLast]
   else in_ops rangeop_code op [RangeOpBytes; RangeOpBytesRate; RangeOpCount; RangeOpRate; RangeOpAbsent]).

Definition vector_validate (op : vectorop) (k : option Z) (g : option grouping) : bool :=
  (if in_ops vectorop_code op [VectorOpTopk; VectorOpBottomk]
   then match k with Some v => 0 <? v | None => false end
   else match k with Some _ => false | None => true end) &&
  (if in_ops vectorop_code op [VectorOpSort; VectorOpSortDesc] then match g with Some _ => false | None => true end else true).

Definition range_op_of (t : token) : option rangeop :=
  if is_ty t TCountOverTime then Some RangeOpCount else if is_ty t TRate then Some RangeOpRate
  else if is_ty t TRateCounter then Some RangeOpRateCounter else if is_ty t TBytesOverTime then Some RangeOpBytes
  else if is_ty t TBytesRate then Some RangeOpBytesRate else if is_ty t TAvgOverTime then Some RangeOpAvg
  else if is_ty t TSumOverTime then Some RangeOpSum else if is_ty t TMinOverTime then Some RangeOpMin
  else if is_ty t TMaxOverTime then Some RangeOpMax else if is_ty t TStdvarOverTime then Some RangeOpStdvar
  else if is_ty t TStddevOverTime then Some RangeOpStddev else if is_ty t TQuantileOverTime then Some RangeOpQuantile
  else if is_ty t TFirstOverTime then Some RangeOpFirst else if is_ty t TLastOverTime then Some RangeOpLast
  else if is_ty t TAbsentOverTime then Some RangeOpAbsent else None.

Definition vector_op_of (t : token) : option vectorop :=
  if is_ty t TSum then Some VectorOpSum else if is_ty t TAvg then Some VectorOpAvg
  else if is_ty t TCount then Some VectorOpCount else if is_ty t TMax then Some VectorOpMax
  else if is_ty t TMin then Some VectorOpMin else if is_ty t TStddev then Some VectorOpStddev
  else if is_ty t TStdvar then Some VectorOpStdvar else if is_ty t TBottomk then Some VectorOpBottomk
  else if is_ty t TTopk then Some VectorOpTopk else if is_ty t TSort then Some VectorOpSort
  else if is_ty t TSortDesc then Some VectorOpSortDesc else None.

Definition peek_binop_of (t : token) : option binop :=
  if is_ty t TOr then Some OpOr else if is_ty t TAnd then Some OpAnd else if is_ty t TUnless then Some OpUnless
  else if is_ty t TAdd then Some OpAdd else if is_ty t TSub then Some OpSub else if is_ty t TMul then Some OpMul
  else if is_ty t TDiv then Some OpDiv else if is_ty t TMod then Some OpMod else if is_ty t TPow then Some OpPow
  else if is_ty t TCmpEq then Some OpEq else if is_ty t TNotEq then Some OpNotEq
  else if is_ty t TGt then Some OpGt else if is_ty t TGte then Some OpGte
  else if is_ty t TLt then Some OpLt else if is_ty t TLte then Some OpLte else None.

Definition is_lit (e : expr) : bool := match e with ELit _ => true | _ => false end.

(** math.Copysign(f, sign) with sign = +1 / -1 *)
Definition copysign (f : float) (neg : bool) : float := if neg then PrimFloat.opp (PrimFloat.abs f) else PrimFloat.abs f.

Definition parse_literal : M expr :=
  do t <- next;
  do neg <- (if is_ty t TAdd then ret false else if is_ty t TSub then ret true
             else if is_ty t TNumber then unread ;; ret false else fail);
  do f <- parse_number;
  ret (ELit (copysign f neg)).

Definition parse_vector : M expr :=
  consume TVector ;; consume TOpenParen ;; do v <- parse_number; consume TCloseParen ;; ret (EVector v).

(** the mutually recursive core: parseExpr, parseMetricExpr, parseMetricExpr1, parseBinOp and its inner loop,
    parseRangeAggregationExpr, parseVectorAggregationExpr, parseLabelReplace *)
Inductive call :=
| CExpr
| CMetric
| CMetric1
| CBinOp (lhs : expr) (min_prec : Z)
| CInner (op : binop) (rhs : expr).     (* the inner `for` of parseBinOp: returns the final rhs operand *)

Fixpoint parse_core (fuel : nat) (c : call) : M expr :=
  match fuel with
  | O => fun _ => PFuel
  | S f =>
    match c with
    | CExpr =>
        do t <- peek;
        if is_ty t TOpenBrace then
          do sel <- parse_selector f; do pl <- parse_pipeline f false []; ret (ELog sel pl)
        else parse_core f CMetric
    | CMetric => do e <- parse_core f CMetric1; parse_core f (CBinOp e 0)
    | CMetric1 =>
        do t <- peek;
        if is_ty t TOpenParen then
          next ;; do e <- parse_core f CExpr; consume TCloseParen ;; ret (EParen e)
        else match range_op_of t with
        | Some op =>
            next ;; consume TOpenParen ;;
            do t2 <- peek;
            do param <- (if is_ty t2 TNumber then do p <- parse_number; consume TComma ;; ret (Some p) else ret None);
            do r <- parse_range_expr f;
            consume TCloseParen ;;
            do t3 <- peek;
            do g <- (if is_ty t3 TBy || is_ty t3 TWithout then do g <- parse_grouping f; ret (Some g) else ret None);
            if range_validate op param g (match r_unwrap r with Some _ => true | None => false end)
            then ret (ERange op r param g) else fail
        | None =>
          match vector_op_of t with
          | Some op =>
              next ;;
              let inner : M (option Z * expr) :=
                consume TOpenParen ;;
                do t2 <- peek;
                do t2' <- peek2;
                (* since the fix of D24 a leading number is the parameter only when a comma follows *)
                do k <- (if is_ty t2 TNumber && is_ty t2' TComma then do p <- parse_int; consume TComma ;; ret (Some p) else ret None);
                do e <- parse_core f CMetric;
                consume TCloseParen ;; ret (k, e) in
              do t1 <- peek;
              do res <- (if is_ty t1 TBy || is_ty t1 TWithout then
                           do g <- parse_grouping f; do ke <- inner; ret (Some g, ke)
                         else if is_ty t1 TOpenParen then
                           do ke <- inner;
                           do t3 <- peek;
                           if is_ty t3 TBy || is_ty t3 TWithout then do g <- parse_grouping f; ret (Some g, ke)
                           else ret (None, ke)
                         else fail);
              let '(g, (k, e)) := res in
              if vector_validate op k g then ret (EVecAgg op e k g) else fail
          | None =>
              if is_ty t TNumber || is_ty t TAdd || is_ty t TSub then parse_literal
              else if is_ty t TLabelReplace then
                consume TLabelReplace ;; consume TOpenParen ;;
                do e <- parse_core f CMetric;
                consume TComma ;; do dst <- parse_string;
                consume TComma ;; do repl <- parse_string;
                consume TComma ;; do src <- parse_string;
                consume TComma ;; do re <- parse_string_tok;
                if v_re_anch re then consume TCloseParen ;; ret (ELabelReplace e dst repl src (text re)) else fail
              else if is_ty t TVector then parse_vector
              else fail
          end
        end
    | CBinOp lhs min_prec =>
        do t <- peek;
        match peek_binop_of t with
        | None => ret lhs
        | Some op =>
            if precedence op <? min_prec then ret lhs else
            next ;;
            do md <- parse_modifier f;
            do rhs <- parse_core f CMetric1;
            if is_logic op && is_lit lhs then fail else
            do rhs' <- parse_core f (CInner op rhs);
            (* the right operand is checked once it is complete (since the fix of D36): in  v or 2 * w  it is  2 * w , not the scalar 2 *)
            if is_logic op && is_lit rhs' then fail else
            parse_core f (CBinOp (EBin lhs op md rhs') min_prec)
        end
    | CInner op rhs =>
        do t <- peek;
        match peek_binop_of t with
        | None => ret rhs
        | Some rop =>
            if precedence rop <? precedence op then ret rhs else
            let np := if precedence op <? precedence rop then precedence op + 1 else precedence op in
            do rhs' <- parse_core f (CBinOp rhs np);
            parse_core f (CInner op rhs')
        end
    end
  end.

Inductive parse_result := Parsed (e : expr) | Rejected | OutOfFuel.

(** logql.Parse on an already tokenized query *)
Definition parse_tokens (toks : list token) : parse_result :=
  let fuel := (16 * length toks + 64)%nat in
  match parse_core fuel CExpr {| prev := []; rest := toks |} with
  | POk e s => match rest s with [] => Parsed e | _ => Rejected end
  | PErr => Rejected
  | PFuel => OutOfFuel
  end.
