(** Model of lexer.Tokenize (internal/logql/lexer/lexer.go) on a fragment of the input alphabet: printable ASCII plus tab,
    newline and carriage return.  text/scanner (Go's token scanner in its default mode) is transliterated for identifiers,
    decimal numbers, interpreted and raw strings, single characters, '#' comments and white space; numbers with a unit suffix go
    through lexerql.ScanUnit.  Everything else the real scanner has a rule for -- exponents, hex / octal / binary literals and
    digit separators, a leading '.', character literals, Go comments (which it skips silently), escapes beyond a few simple ones,
    compound or oversized quantities, bytes outside the alphabet -- makes the model answer [LexUnmodelled]; such inputs are judged on
    the implementation's own answer only.  The keyword table and the function predicate are generated from token.go. *)
From LogQLV Require Import Base.Bytes Base.TimeFmt Model.Tables Model.Parser.

Inductive lex_result := LexOk (ts : list (ttype * bytes)) | LexErr | LexUnmodelled.

Definition is_space_b (b : byte) : bool := (bz b =? 32) || (bz b =? 9) || (bz b =? 10) || (bz b =? 13).
Definition in_alphabet (b : byte) : bool := ((32 <=? bz b) && (bz b <=? 126)) || (bz b =? 9) || (bz b =? 10) || (bz b =? 13).
Definition is_letter_b (b : byte) : bool := ((97 <=? bz b) && (bz b <=? 122)) || ((65 <=? bz b) && (bz b <=? 90)).
Definition lower_b (b : byte) : byte :=
  if (65 <=? bz b) && (bz b <=? 90) then match Byte.of_N (Z.to_N (bz b + 32)) with Some c => c | None => b end else b.

Fixpoint lookup_kw (k : bytes) (tbl : list (bytes * ttype)) : option ttype :=
  match tbl with
  | [] => None
  | (w, t) :: r => if bytes_eqb w k then Some t else lookup_kw k r
  end.

(** lexerql: the runes a quantity may continue with *)
Definition is_duration_rune (b : byte) : bool := existsb (byte_eqb b) ["n"; "u"; "m"; "s"; "h"; "d"; "w"; "y"]%byte.
Definition is_bytes_rune (b : byte) : bool := existsb (byte_eqb b) ["b"; "B"; "i"; "k"; "K"; "M"; "g"; "G"; "t"; "T"; "p"; "P"]%byte.
Definition is_unit_rune (b : byte) : bool := is_duration_rune b || is_bytes_rune b.
Definition is_value_rune (b : byte) : bool := is_digit_b b || byte_eqb b "."%byte || is_unit_rune b.

Fixpoint span (f : byte -> bool) (s : bytes) : bytes * bytes :=
  match s with
  | b :: t => if f b then let '(a, r) := span f t in (b :: a, r) else ([], s)
  | [] => ([], [])
  end.

Definition bytes_units : list bytes :=
  map (fun s => s) [["b"]; ["k";"i";"b"]; ["k";"b"]; ["m";"i";"b"]; ["m";"b"]; ["g";"i";"b"]; ["g";"b"]; ["t";"i";"b"]; ["t";"b"]; ["p";"i";"b"]; ["p";"b"];
                    ["e";"i";"b"]; ["e";"b"]; ["k";"i"]; ["k"]; ["m";"i"]; ["g";"i"]; ["g"]; ["t";"i"]; ["t"]; ["p";"i"]; ["p"]; ["e";"i"]; ["e"]]%byte.
Definition duration_units : list bytes := [["n";"s"]; ["u";"s"]; ["m";"s"]; ["s"]; ["m"]; ["h"]; ["d"]; ["w"]]%byte.

(** a quantity: [num] is what the scanner delivered (digits, or digits '.' digits), [s] what follows *)
Inductive unit_result := UOk (t : ttype) (text : bytes) (rest : bytes) | UErr | UUnmodelled.
Definition scan_unit (num : bytes) (is_float : bool) (s : bytes) : unit_result :=
  match s with
  | c :: _ =>
      if negb (is_value_rune c) then UOk TNumber num s else
      let '(run, rest) := span is_value_rune s in
      let '(unit, after_unit) := span is_unit_rune run in
      match unit with
      | [] => UUnmodelled                                   (* the number is directly followed by '.' *)
      | _ =>
        let lu := map lower_b unit in
        if existsb (bytes_eqb lu) bytes_units then
          (* humanize.ParseBytes(text): number, optional space, case-insensitive unit *)
          match after_unit with
          | [] => if Z.of_nat (length num) <=? 9 then UOk TBytes (num ++ run) rest else UUnmodelled
          | _ => UUnmodelled                                (* 5kb3 ... *)
          end
        else if existsb (bytes_eqb lu) duration_units then
          match after_unit with
          | [] =>
              if negb (bytes_eqb lu unit) then UErr         (* 10M, 5S: neither Prometheus nor Go accepts an upper-case unit *)
              else if Z.of_nat (length num) <=? 9 then
                if is_float && (bytes_eqb unit ["d"%byte] || bytes_eqb unit ["w"%byte]) then UErr      (* 1.5d *)
                else UOk TDuration (num ++ run) rest
              else UUnmodelled
          | _ => UUnmodelled                                (* 1h30m and the like: left to the implementation *)
          end
        else UErr                                           (* unknown unit, e.g. 5y, 5n *)
      end
  | [] => UOk TNumber num []
  end.

(** an interpreted string: content up to the closing quote, escapes kept raw; None = not terminated (or a newline inside) *)
Fixpoint scan_dq (fuel : nat) (s acc : bytes) : option (bytes * bytes) :=
  match fuel with
  | O => None
  | S f =>
    match s with
    | [] => None
    | c :: t =>
        if byte_eqb c """"%byte then Some (acc, t)
        else if bz c =? 10 then None
        else if byte_eqb c "\"%byte then match t with d :: t' => scan_dq f t' (acc ++ [c; d]) | [] => None end
        else scan_dq f t (acc ++ [c])
    end
  end.

(** strutil.Unquote on the fragment: printable ASCII, escapes of quote, backslash, n, t *)
Fixpoint unquote_frag (s : bytes) : option (option bytes) :=
  match s with
  | [] => Some (Some [])
  | c :: t =>
      if byte_eqb c "\"%byte then
        match t with
        | d :: t' =>
            let k (x : byte) := match unquote_frag t' with Some (Some v) => Some (Some (x :: v)) | r => r end in
            if byte_eqb d """"%byte then k d else if byte_eqb d "\"%byte then k d
            else if byte_eqb d "n"%byte then k x0a else if byte_eqb d "t"%byte then k x09
            else None
        | [] => Some None
        end
      else if (32 <=? bz c) && (bz c <=? 126) then match unquote_frag t with Some (Some v) => Some (Some (c :: v)) | r => r end
      else None
  end.

Fixpoint scan_raw (s acc : bytes) : option (bytes * bytes) :=
  match s with
  | [] => None
  | c :: t => if byte_eqb c "`"%byte then Some (acc, t) else scan_raw t (acc ++ [c])
  end.

Fixpoint skip_comment (s : bytes) : bytes :=
  match s with [] => [] | c :: t => if bz c =? 10 then t else skip_comment t end.

(** scanSpace + comments after a function keyword *)
Fixpoint skip_ws_comments (fuel : nat) (s : bytes) : bytes :=
  match fuel with
  | O => s
  | S f =>
    match s with
    | c :: t => if is_space_b c then skip_ws_comments f t
                else if byte_eqb c "#"%byte then skip_ws_comments f (skip_comment t)
                else s
    | [] => []
    end
  end.
Fixpoint skip_ws (s : bytes) : bytes :=
  match s with c :: t => if is_space_b c then skip_ws t else s | [] => [] end.

Definition flag_rune (b : byte) : bool := is_letter_b b || byte_eqb b "-"%byte.

Fixpoint lex_loop (fuel : nat) (s : bytes) (acc : list (ttype * bytes)) : lex_result :=
  match fuel with
  | O => LexUnmodelled
  | S f =>
    match s with
    | [] => LexOk acc
    | c :: t =>
        if negb (in_alphabet c) then LexUnmodelled
        else if is_space_b c then lex_loop f t acc
        else if byte_eqb c "#"%byte then lex_loop f (skip_comment t) acc
        else if byte_eqb c "'"%byte then LexUnmodelled
        else if byte_eqb c "/"%byte && match t with d :: _ => byte_eqb d "/"%byte || byte_eqb d "*"%byte | [] => false end then LexUnmodelled
        else if byte_eqb c "."%byte && match t with d :: _ => is_digit_b d | [] => false end then LexUnmodelled
        else if byte_eqb c "-"%byte && match t with d :: _ => byte_eqb d "-"%byte | [] => false end then
          let '(fl, r) := span flag_rune t in lex_loop f r (acc ++ [(TParserFlag, c :: fl)])
        else if is_digit_b c then
          let '(ds, r) := span is_digit_b s in
          (* leading zero followed by more: octal / hex / binary / separators *)
          if byte_eqb c "0"%byte && match ds with [_] => match r with d :: _ => is_letter_b d || byte_eqb d "_"%byte | [] => false end | _ => true end then LexUnmodelled
          else match r with
               | d :: r1 =>
                   if byte_eqb d "_"%byte || byte_eqb d "e"%byte || byte_eqb d "E"%byte then LexUnmodelled
                   else if byte_eqb d "."%byte then
                     let '(fs, r2) := span is_digit_b r1 in
                     match r2 with
                     | x :: _ => if byte_eqb x "_"%byte || byte_eqb x "e"%byte || byte_eqb x "E"%byte then LexUnmodelled
                                 else match scan_unit (ds ++ d :: fs) true r2 with
                                      | UOk ty txt rest => lex_loop f rest (acc ++ [(ty, txt)])
                                      | UErr => LexErr
                                      | UUnmodelled => LexUnmodelled
                                      end
                     | [] => lex_loop f [] (acc ++ [(TNumber, ds ++ d :: fs)])
                     end
                   else match scan_unit ds false r with
                        | UOk ty txt rest => lex_loop f rest (acc ++ [(ty, txt)])
                        | UErr => LexErr
                        | UUnmodelled => LexUnmodelled
                        end
               | [] => LexOk (acc ++ [(TNumber, ds)])
               end
        else if byte_eqb c """"%byte then
          match scan_dq (S (length t)) t [] with
          | None => LexErr
          | Some (content, r) =>
              match unquote_frag content with
              | Some (Some v) => lex_loop f r (acc ++ [(TString, v)])
              | Some None => LexErr
              | None => LexUnmodelled
              end
          end
        else if byte_eqb c "`"%byte then
          match scan_raw t [] with
          | None => LexErr
          | Some (content, r) => if forallb in_alphabet content then lex_loop f r (acc ++ [(TString, content)]) else LexUnmodelled
          end
        else if ident_start c then
          let '(idn, r) := span ident_rune s in
          match lookup_kw idn keyword_table with
          | Some ty =>
              if is_function ty then
                let r' := skip_ws_comments (S (length r)) r in
                let keep := match r' with d :: _ => byte_eqb d "("%byte || byte_eqb d "b"%byte || byte_eqb d "w"%byte | [] => false end in
                lex_loop f r' (acc ++ [(if keep then ty else TIdent, idn)])
              else lex_loop f r (acc ++ [(ty, idn)])
          | None => lex_loop f r (acc ++ [(TIdent, idn)])
          end
        else
          (* a single character: two-character operators first, then the table, else an identifier token *)
          match t with
          | d :: t' =>
              match lookup_kw [c; d] keyword_table with
              | Some ty => lex_loop f t' (acc ++ [(ty, [c; d])])
              | None => match lookup_kw [c] keyword_table with
                        | Some ty => lex_loop f t (acc ++ [(ty, [c])])
                        | None => lex_loop f t (acc ++ [(TIdent, [c])])
                        end
              end
          | [] => match lookup_kw [c] keyword_table with
                  | Some ty => LexOk (acc ++ [(ty, [c])])
                  | None => LexOk (acc ++ [(TIdent, [c])])
                  end
          end
    end
  end.

Definition lex (s : bytes) : lex_result := lex_loop (S (length s)) s [].
