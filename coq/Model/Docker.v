(** Model of the Docker storage (internal/dockerlog/dockerlog.go) under the engine: container labels and selection,
    the LogsOptions each selected container is asked for, decoding + merging of the selected logs with faults, the
    number of iterator calls an evaluation makes (hence which faults it meets), and the open/close ledger of
    build / closeOnError / deferred Close. *)
From LogQLV Require Import Base.Bytes Base.FloatX Base.LMap Base.Heap Base.TimeFmt Model.Tables Model.KeyToLabel Model.Syntax Model.Frames
                           Model.Stages Model.Engine Model.Metric.

Record container := mkctr {
  c_id : bytes; c_names : list bytes; c_image : bytes; c_image_id : bytes; c_command : bytes;
  c_created : Z; c_state : bytes; c_status : bytes;
  c_labels : list (bytes * bytes);        (* Docker labels (a Go map: unique keys) *)
  c_reader : reader;                      (* what ContainerLogs delivers *)
  c_open_fail : bool;
}.

Definition L (s : list byte) : bytes := s.
Definition trim_slash (s : bytes) : bytes := match s with b :: t => if byte_eqb b "/"%byte then t else s | [] => [] end.

Definition builtin_labels (c : container) : list (bytes * bytes) :=
  let name := match c_names c with n :: _ => trim_slash n | [] => [] end in
  [ (["c";"o";"n";"t";"a";"i";"n";"e";"r"]%byte, name);
    (["c";"o";"n";"t";"a";"i";"n";"e";"r";"_";"i";"d"]%byte, c_id c);
    (["c";"o";"n";"t";"a";"i";"n";"e";"r";"_";"n";"a";"m";"e"]%byte, name);
    (["c";"o";"n";"t";"a";"i";"n";"e";"r";"_";"i";"m";"a";"g";"e"]%byte, c_image c);
    (["c";"o";"n";"t";"a";"i";"n";"e";"r";"_";"i";"m";"a";"g";"e";"_";"i";"d"]%byte, c_image_id c);
    (["c";"o";"n";"t";"a";"i";"n";"e";"r";"_";"c";"o";"m";"m";"a";"n";"d"]%byte, c_command c);
    (["c";"o";"n";"t";"a";"i";"n";"e";"r";"_";"c";"r";"e";"a";"t";"e";"d"]%byte, dec (c_created c));
    (["c";"o";"n";"t";"a";"i";"n";"e";"r";"_";"s";"t";"a";"t";"e"]%byte, c_state c);
    (["c";"o";"n";"t";"a";"i";"n";"e";"r";"_";"s";"t";"a";"t";"u";"s"]%byte, c_status c) ].

Fixpoint insert_kv (kv : bytes * bytes) (l : list (bytes * bytes)) : list (bytes * bytes) :=
  match l with
  | [] => [kv]
  | x :: t => match bytes_cmp (fst kv) (fst x) with Gt => x :: insert_kv kv t | _ => kv :: l end
  end.
Definition sort_kv (l : list (bytes * bytes)) : list (bytes * bytes) := fold_right insert_kv [] l.

(** getLabels (after the fix of D28): built-ins first, then the Docker labels in key order, each under its sanitised name *)
Definition get_labels (c : container) : lmap :=
  fold_left (fun m kv => lset m (key_to_label (fst kv)) (snd kv)) (sort_kv (c_labels c)) (lmap_of_list (builtin_labels c)).

(** containerLabels.Match (after the fixes of D1 D2): every matcher on the label's value, absent = "" *)
Definition ctr_match (sel : list ematcher) (c : container) : bool := forallb (sel_ok (get_labels c)) sel.
(** before D1 / D2 *)
Definition ctr_match_prefix (sel : list ematcher) (c : container) : bool :=
  forallb (fun m => match lget (get_labels c) (em_label m) with
                    | None => false
                    | Some v => match sm_op (em_m m) with
                                | OpNotEq => bytes_eqb v (sm_value (em_m m))
                                | _ => str_match true (em_m m) v
                                end
                    end) sel.

Definition selected (sel : list ematcher) (inv : list container) : list container := filter (ctr_match sel) inv.

(** openLog: since / until = the engine's window in whole seconds, as decimal text: the start rounded down and (since the fix of
    D35) the end rounded UP, so that the window asked for is never narrower than the engine's *)
Definition ceil_sec (ns : Z) : Z := (ns + 999999999) / 1000000000.
Definition log_opts (start_ns end_ns : Z) : bytes * bytes := (dec (start_ns / 1000000000), dec (ceil_sec end_ns)).
(** before the fix of D35: both bounds rounded down *)
Definition log_opts_floor (start_ns end_ns : Z) : bytes * bytes := (dec (start_ns / 1000000000), dec (end_ns / 1000000000)).

(** * Reading: every selected container's stream is decoded (C03) and the streams are merged (C04) *)
Record src := { s_idx : nat; s_recs : list frec; s_err : bool; s_hit : bool }.

(** otelstorage.Timestamp is a uint64 holding time.Time.UnixNano(): instants outside 1970..2262 wrap (the zero time
    0001-01-01T00:00:00Z, which a daemon reports for a message without recorded time, becomes a large unsigned value and
    therefore sorts after every ordinary record) *)
Definition parse_ts_u64 (s : bytes) : option Z := option_map (fun z => z mod 18446744073709551616) (parse_ts s).

Definition decode_ctr (c : container) : list frec * bool :=
  let '(rs, e) := decode parse_ts_u64 (c_reader c) in (rs, match e with CleanEnd => false | _ => true end).

Definition elemD := (nat * frec)%type.
Definition elessD (a b : elemD) : bool := f_ts (snd a) <? f_ts (snd b).
Definition edfltD : elemD := (O, {| f_ts := 0; f_line := [] |}).

Fixpoint upd_src (l : list src) (i : nat) (f : src -> src) : list src :=
  match l, i with
  | [], _ => []
  | x :: t, O => f x :: t
  | x :: t, S i' => x :: upd_src t i' f
  end.

(** iter.Next on source idx: a record, or nothing; an exhausted source that ends in an error is now HIT (sticky) *)
Definition pullD (srcs : list src) (idx : nat) : option frec * list src :=
  match nth_error srcs idx with
  | Some s =>
      match s_recs s with
      | r :: rest => (Some r, upd_src srcs idx (fun s => {| s_idx := s_idx s; s_recs := rest; s_err := s_err s; s_hit := s_hit s |}))
      | [] => (None, upd_src srcs idx (fun s => {| s_idx := s_idx s; s_recs := []; s_err := s_err s; s_hit := s_err s |}))
      end
  | None => (None, srcs)
  end.

Record mstate := { m_heap : list elemD; m_srcs : list src; m_init : bool }.

Fixpoint initD (n idx : nat) (heap : list elemD) (srcs : list src) : list elemD * list src :=
  match n with
  | O => (heap, srcs)
  | S n' => match pullD srcs idx with
            | (Some r, srcs') => initD n' (S idx) (heap_push elessD edfltD heap (idx, r)) srcs'
            | (None, srcs') => initD n' (S idx) heap srcs'
            end
  end.

(** one Next of the record iterator SelectLogs returned (0 containers: empty; 1: the stream itself; more: mergeIter) *)
Definition nextD (st : mstate) : option elemD * mstate :=
  match m_srcs st with
  | [] => (None, st)
  | [ _ ] =>
      match pullD (m_srcs st) 0 with
      | (Some r, srcs') => (Some (O, r), {| m_heap := []; m_srcs := srcs'; m_init := true |})
      | (None, srcs') => (None, {| m_heap := []; m_srcs := srcs'; m_init := true |})
      end
  | _ =>
      let '(heap, srcs) := if m_init st then (m_heap st, m_srcs st) else initD (length (m_srcs st)) 0 [] (m_srcs st) in
      match heap_pop elessD edfltD heap with
      | None => (None, {| m_heap := heap; m_srcs := srcs; m_init := true |})
      | Some ((idx, r), heap') =>
          match pullD srcs idx with
          | (Some r', srcs') => (Some (idx, r), {| m_heap := heap_push elessD edfltD heap' (idx, r'); m_srcs := srcs'; m_init := true |})
          | (None, srcs') =>
              if match nth_error srcs' idx with Some s => s_hit s | None => false end
              then (None, {| m_heap := heap'; m_srcs := srcs'; m_init := true |})       (* Next = false: the refill met the error *)
              else (Some (idx, r), {| m_heap := heap'; m_srcs := srcs'; m_init := true |})
          end
      end
  end.

Definition errD (st : mstate) : bool := existsb s_hit (m_srcs st).

(** the record the engine sees: resource attributes = the container's labels *)
Definition record_of (ctrs : list container) (e : elemD) : record :=
  {| r_ts := f_ts (snd e); r_line := f_line (snd e); r_attrs := [];
     r_res := match nth_error ctrs (fst e) with Some c => get_labels c | None => [] end |}.

Definition open_state (ctrs : list container) : mstate :=
  {| m_heap := []; m_init := false;
     m_srcs := map (fun ic => let '(rs, e) := decode_ctr (snd ic) in {| s_idx := fst ic; s_recs := rs; s_err := e; s_hit := false |})
                   (combine (seq 0 (length ctrs)) ctrs) |}.

(** * A log query over Docker: entryIterator + groupEntries, driven until Next returns false; then Err() *)
Inductive dresult (A : Type) := DOk (a : A) | DErr | DOut.     (* DOut: outside a library fragment *)
Arguments DOk {A}. Arguments DErr {A}. Arguments DOut {A}.

Fixpoint log_loop (o : oracles) (ctrs : list container) (stages : list estage) (limit : Z) (fuel : nat)
                  (st : mstate) (sts : list dstate) (count : Z) : option (list entry * mstate) :=
  match fuel with
  | O => Some ([], st)
  | S f =>
    match nextD st with                                  (* the storage iterator is asked first ... *)
    | (None, st') => Some ([], st')
    | (Some e, st') =>
      if (0 <? limit) && (limit <=? count) then Some ([], st') else   (* ... then the limit is looked at *)
      let r := record_of ctrs e in
      let ls := set_from_record r in
      match run_stages o stages sts (r_ts r) (r_line r) ls with
      | None => None
      | Some (sts', None) => log_loop o ctrs stages limit f st' sts' count
      | Some (sts', Some (line', ls')) =>
        match log_loop o ctrs stages limit f st' sts' (count + 1) with
        | None => None
        | Some (es, stf) => Some ({| e_ts := r_ts r; e_line := line'; e_set := ls' |} :: es, stf)
        end
      end
    end
  end.

Definition total_recs (st : mstate) : nat := fold_right (fun s n => (length (s_recs s) + n)%nat) 0%nat (m_srcs st).

(** faults before anything is read: listing fails, or some open fails *)
Definition open_fails (ctrs : list container) : bool := existsb c_open_fail ctrs.

Definition docker_log (o : oracles) (list_fail : bool) (inv : list container) (q : equery) (limit : Z) : dresult (list entry) :=
  if list_fail then DErr else
  let ctrs := selected (q_sel q) inv in
  if open_fails ctrs then DErr else
  let st := open_state ctrs in
  match log_loop o ctrs (q_pipe q) limit (S (S (total_recs st))) st (init_states (q_pipe q)) 0 with
  | None => DOut
  | Some (es, stf) => if errD stf then DErr else DOk es
  end.

(** * The ledger: which readers an evaluation opens, and that every one of them is closed (C14) *)
Inductive shape :=
| ShSel (sel : list ematcher)                 (* a log query or a range aggregation over one selection *)
| ShWrap (s : shape)                          (* vector aggregation / literal binary operation: one child *)
| ShBin (l r : shape)                         (* binary operation over two sub-expressions *)
| ShLeaf.                                     (* vector(), literal *)

Record ledger := { opened : list bytes; closed : list bytes }.
Definition led0 : ledger := {| opened := []; closed := [] |}.
Definition led_open (l : ledger) (ids : list bytes) : ledger := {| opened := opened l ++ ids; closed := closed l |}.
Definition led_close (l : ledger) (ids : list bytes) : ledger := {| opened := opened l; closed := closed l ++ ids |}.

(** SelectLogs: list; open every selected container (all opens are attempted, concurrently); if any fails, the ones
    that did open are closed again and the call fails.  Returns the readers now held (None = failed). *)
Definition open_sel (list_fail : bool) (inv : list container) (sel : list ematcher) (l : ledger) : option (list bytes) * ledger :=
  if list_fail then (None, l) else
  let ctrs := selected sel inv in
  let ok := map c_id (filter (fun c => negb (c_open_fail c)) ctrs) in
  if open_fails ctrs then (None, led_close (led_open l ok) ok) else (Some ok, led_open l ok).

(** build: returns the readers held by the built iterator tree (None = build failed; closeOnError has run) *)
Fixpoint build_shape (list_fail : bool) (inv : list container) (s : shape) (l : ledger) : option (list bytes) * ledger :=
  match s with
  | ShSel sel => open_sel list_fail inv sel l
  | ShWrap s1 => build_shape list_fail inv s1 l
  | ShLeaf => (Some [], l)
  | ShBin a b =>
      match build_shape list_fail inv a l with
      | (None, l1) => (None, l1)
      | (Some ra, l1) =>
          match build_shape list_fail inv b l1 with
          | (None, l2) => (None, led_close l2 ra)                (* defer closeOnError(left) *)
          | (Some rb, l2) => (Some (ra ++ rb), l2)
          end
      end
  end.

(** evaluation: build, read (whatever happens while reading), then the deferred Close of the whole tree *)
Definition eval_ledger (list_fail : bool) (inv : list container) (s : shape) : ledger :=
  match build_shape list_fail inv s led0 with
  | (None, l) => l
  | (Some held, l) => led_close l held
  end.
(** before D13 the metric path never closed what it had built *)
Definition eval_ledger_prefix (list_fail : bool) (inv : list container) (s : shape) : ledger :=
  snd (build_shape list_fail inv s led0).

(** * Metric queries over Docker: every range aggregation reads the merge of ITS selection (fault-free view) *)
Fixpoint drain (fuel : nat) (st : mstate) : list elemD :=
  match fuel with
  | O => []
  | S f => match nextD st with (Some e, st') => e :: drain f st' | (None, _) => [] end
  end.

Definition clean_state (ctrs : list container) : mstate :=
  let st := open_state ctrs in
  {| m_heap := m_heap st; m_init := m_init st;
     m_srcs := map (fun s => {| s_idx := s_idx s; s_recs := s_recs s; s_err := false; s_hit := false |}) (m_srcs st) |}.

Definition docker_recs (inv : list container) (q : equery) (_ _ : Z) : list record :=
  let ctrs := selected (q_sel q) inv in
  let st := clean_state ctrs in
  map (record_of ctrs) (drain (S (total_recs st)) st).

Definition all_label_caps : caps := {| c_label := fun _ => true; c_line := fun _ => false |}.

(** the Docker storage evaluates every selector matcher itself, against the container's labels (the engine-made
    label msg is not one of them): the engine does not evaluate them again on the records *)
Definition selection_done (q : equery) : equery := {| q_sel := []; q_pipe := q_pipe q |}.

Definition docker_metric (o : oracles) (inv : list container) (p : mparams) (e : mexpr) : option (list series) :=
  eval_metric_on o all_label_caps selection_done (docker_recs inv) p e.

(** does any stream the evaluation could read carry a fault? (selection of every range aggregation / log selector) *)
Fixpoint shape_of (e : mexpr) : shape :=
  match e with
  | MRange _ q _ _ _ _ _ => ShSel (q_sel q)
  | MVecAgg _ e1 _ _ => ShWrap (shape_of e1)
  | MVector _ | MLit _ => ShLeaf
  | MBin _ _ l r => match l, r with
                    | MLit _, _ => ShWrap (shape_of r)
                    | _, MLit _ => ShWrap (shape_of l)
                    | _, _ => ShBin (shape_of l) (shape_of r)
                    end
  end.
